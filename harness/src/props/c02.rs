//! C02 - annotations reach exactly the ancestors; gene/disease records stay direct.
//! (The same exploration, with the information-content emphasis, also serves C03.)

use super::c01::{self_consistent, POOL, POOL_ROOTS};
use super::common::{via_binary, via_builder, via_jax, AnnGroups};
use crate::ctx::{guard, Ctx};
use crate::drive;
use crate::encode::EncOpts;
use crate::jax::{self, JaxOpts};
use crate::model::{ic_value, AnnFact, Facts, Kind, Mode, RefOnt, KINDS};
use crate::obs::Obs;
use crate::space::{all_dags, permutations, Dag};
use hpo::Ontology;
use serde_json::{json, Value};

/// The shared annotation groups plus one more bare gene: the record totals are then 6 genes / 3 OMIM / 5 ORPHA -
/// three different numbers, so that an information content computed with another kind's total differs on every
/// path that can carry bare records (the shared groups alone have 5 / 3 / 5).
pub fn ann_groups(s: u32, ids: &[u32]) -> AnnGroups {
    let mut g = AnnGroups::new(s, ids);
    g.bare.push(Facts::ann(Kind::Gene, 3636, "G6", None));
    g
}

/// The text formats cannot carry bare records; so that the three totals differ there as well (and none of them is 1),
/// the text-path fact sets get four more annotated records: genes 55 and 56 and ORPHA 81 / OMIM 600055 on the first
/// and the last term. Totals for a proper subset S: 4 genes / 2 OMIM / 3 ORPHA.
fn text_extras(g: &mut AnnGroups, ids: &[u32]) {
    let (first, last) = (ids[0], ids[ids.len() - 1]);
    g.g2.push(Facts::ann(Kind::Gene, 55, "GENE55", Some(first)));
    g.g2.push(Facts::ann(Kind::Gene, 56, "GENE56", Some(last)));
    g.o1.push(Facts::ann(Kind::Omim, 600_055, "Disease fifty-five", Some(first)));
    g.r1.push(Facts::ann(Kind::Orpha, 81, "Orpha eighty-one", Some(last)));
}

/// What the statement leaves open about an input (DESIGN 2.10): such inputs get the policy-neutral oracle
/// "refused, or everything the statement demands holds".
#[derive(Clone, Copy, Default)]
struct Open {
    /// the constructor may refuse the input
    refusal: bool,
    /// records WITHOUT any term that no fact names may exist in the result: they are linked to no term and list no
    /// term, so the statement's "if and only if" holds for them (a NOT-only disease registered by a loader, a
    /// record registered by a call that then fails)
    bare_extras: bool,
}

/// Count a tolerated refusal under a key that names the space and the reason (the supervisor lists every such
/// counter that is not 0): "refused: <space>: <what>".
fn refused(ctx: &mut Ctx, what: &str) {
    let space = ctx.spaces.last().map(|s| s.0.clone()).unwrap_or_default();
    ctx.bump(&format!("refused: {space}: {what}"), 1);
}

/// The (kind, record id, term id) of the `annotate_*` call that `drive::build` reports as failed.
fn failed_annotate(e: &str) -> Option<(crate::model::Kind, u32, u32)> {
    use crate::model::Kind;
    for (prefix, kind) in [("annotate_gene(", Kind::Gene), ("annotate_omim_disease(", Kind::Omim), ("annotate_orpha_disease(", Kind::Orpha)] {
        if let Some(rest) = e.strip_prefix(prefix) {
            let (args, _) = rest.split_once(')')?;
            let (id, term) = args.split_once(',')?;
            return Some((kind, id.trim().parse().ok()?, term.trim().parse().ok()?));
        }
    }
    None
}

/// Is the failed call of `e` one that `excuse` grants? `excuse(earlier facts, the failing fact)`; if the same
/// (kind, record, term) occurs more than once, any occurrence that is granted will do.
fn failed_call_is_open(f: &Facts, e: &str, excuse: &dyn Fn(&[AnnFact], &AnnFact) -> bool) -> bool {
    let Some((kind, id, term)) = failed_annotate(e) else {
        return false;
    };
    f.anns.iter().enumerate().any(|(i, a)| a.kind == kind && a.id == id && a.term == Some(term) && excuse(&f.anns[..i], a))
}

/// "The three kinds never leak": the id of a record of one kind, asked of the lookup of ANOTHER kind that has no
/// record with this id (neither in the facts nor in what the ontology itself iterates), finds nothing. (The
/// observation only looks up ids under the kind whose iterator produced them.)
fn kinds_do_not_leak(ctx: &mut Ctx, ont: &Ontology, obs: &Obs, r: &RefOnt, path: &str, case: &dyn Fn() -> Value) {
    for k in KINDS {
        for id in r.recs[k.idx()].keys() {
            for j in KINDS {
                if j == k || r.recs[j.idx()].contains_key(id) || obs.recs[j.idx()].iter().any(|x| x.id == *id) {
                    continue;
                }
                let found = guard(|| match j {
                    Kind::Gene => ont.gene(&(*id).into()).map(|g| g.name().to_string()),
                    Kind::Omim => ont.omim_disease(&(*id).into()).map(|d| hpo::annotations::Disease::name(d).to_string()),
                    Kind::Orpha => ont.orpha_disease(&(*id).into()).map(|d| hpo::annotations::Disease::name(d).to_string()),
                });
                let site = format!("Ontology::{}", crate::obs::kind_fn(j));
                match found {
                    Ok(None) => {}
                    Ok(Some(name)) => {
                        ctx.violation(&site, &format!("[{path}] finds a record for an id that only another kind has"), json!({"path": path, "case": case(), "difference": format!("{} id {id} asked of the {} lookup: found {:?}", k.name(), j.name(), name)}));
                        return;
                    }
                    Err(p) => {
                        ctx.violation(&site, &format!("[{path}] panics for an id that only another kind has"), json!({"path": path, "case": case(), "observed": p}));
                        return;
                    }
                }
            }
        }
    }
}

/// Observe `ont` and compare it with the model, granting what `open` leaves open. The information content is
/// judged against the number of records the ontology itself reports (N) when bare extras are present.
fn judge(ctx: &mut Ctx, ont: &Ontology, r: &RefOnt, mode: Mode, path: &str, case: &dyn Fn() -> Value, open: Open) -> Option<Obs> {
    ctx.exec();
    ctx.validated();
    match Obs::of(ont) {
        Err(inc) => {
            ctx.violation(&inc.site, &format!("[{path}] read API inconsistent or panicking"), json!({"path": path, "case": case(), "observed": inc.what}));
            None
        }
        Ok(mut obs) => {
            let mut exp = Obs::expected(r, mode);
            if open.bare_extras {
                for k in KINDS {
                    let total = obs.recs[k.idx()].len();
                    let before = total;
                    obs.recs[k.idx()].retain(|x| !x.terms.is_empty() || r.recs[k.idx()].contains_key(&x.id));
                    if obs.recs[k.idx()].len() != before {
                        ctx.bump("term_less_records_no_fact_names_tolerated", (before - obs.recs[k.idx()].len()) as u64);
                        for t in exp.terms.iter_mut() {
                            t.ic[k.idx()] = ic_value(total, t.recs[k.idx()].len());
                        }
                    }
                }
            }
            if let Some((site, sig, det)) = obs.diff(&exp, false) {
                ctx.violation(&site, &format!("[{path}] {sig}"), json!({"path": path, "case": case(), "difference": det}));
            }
            kinds_do_not_leak(ctx, ont, &obs, r, path, case);
            ctx.outcome(obs.fingerprint());
            Some(obs)
        }
    }
}

/// A file that lists a term id twice inside a record: whether a decoder accepts it is not stated (refusal or
/// documented panic: counted). What the file SAYS is not open - a fact given twice is the same fact, and the rest of
/// the file (terms, links, the other records, the bare records) is laid out as documented - so an ontology that is
/// returned must be the one of the file's facts, each taken once (which implies that it is consistent with itself).
fn repeated_ids_exact_or_refused(ctx: &mut Ctx, bytes: &[u8], r: &RefOnt, path: &str, case: &dyn Fn() -> Value) {
    match drive::from_bytes(bytes) {
        Ok(Ok(ont)) => {
            ctx.bump("unspecified_layouts_accepted", 1);
            judge(ctx, &ont, r, Mode::Defaults, path, case, Open { refusal: false, bare_extras: false });
        }
        Ok(Err(_)) | Err(_) => {
            ctx.exec();
            refused(ctx, "decoder refuses a term id listed twice inside a record");
        }
    }
}

/// The text path with an open point: like `common::via_jax`, but a refusal / extra term-less records are granted
/// as `open` says.
fn via_jax_open(ctx: &mut Ctx, f: &Facts, o: &JaxOpts, transitive: bool, what: &str, open: Open) {
    let mut tf = f.clone();
    tf.anns.retain(|a| a.term.is_some());
    let r = RefOnt::derive(&tf);
    ctx.transitions(tf.n_steps());
    let rendered = jax::render(&tf, o);
    let case = || -> Value { json!({"facts": tf.to_json(), "order": what, "options": format!("{o:?}"), "transitive_loader": transitive, "hp.obo": rendered.obo, "phenotype.hpoa": rendered.hpoa, "genes": if transitive { &rendered.phenotype_to_genes } else { &rendered.genes_to_phenotype }}) };
    let path = if transitive { "jax transitive" } else { "jax" };
    match jax::load(&rendered, transitive) {
        Ok(Ok(ont)) => {
            judge(ctx, &ont, &r, Mode::Defaults, path, &case, open);
        }
        Ok(Err(_)) if open.refusal => {
            ctx.exec();
            refused(ctx, &format!("[{path}] loader refuses the open input"));
        }
        Ok(Err(e)) => {
            ctx.exec();
            ctx.violation("Ontology::from_standard", &format!("[{path}] rejects valid JAX files"), json!({"case": case(), "observed": e}));
        }
        Err(p) => {
            ctx.exec();
            ctx.violation("Ontology::from_standard", &format!("[{path}] panics on valid JAX files"), json!({"case": case(), "observed": p}));
        }
    }
}

/// The decoder path with an open point: like `common::via_binary`, but a refusal is granted as `open` says.
fn via_binary_open(ctx: &mut Ctx, f: &Facts, version: u8, what: &str, open: Open) {
    let pf = crate::encode::project(f, version);
    let r = RefOnt::derive(&pf);
    ctx.transitions(pf.n_steps());
    let bytes = crate::encode::encode(&pf, &EncOpts::v(version));
    let case = || json!({"facts": pf.to_json(), "format_version": version, "order": what, "bytes_len": bytes.len()});
    match drive::from_bytes(&bytes) {
        Ok(Ok(ont)) => {
            judge(ctx, &ont, &r, Mode::Defaults, &format!("binary v{version}"), &case, open);
        }
        Ok(Err(_)) if open.refusal => {
            ctx.exec();
            refused(ctx, &format!("[binary v{version}] decoder refuses the open input"));
        }
        Ok(Err(e)) => {
            ctx.exec();
            ctx.violation("Ontology::from_bytes", &format!("[binary v{version}] rejects a file laid out as documented"), json!({"case": case(), "observed": e}));
        }
        Err(p) => {
            ctx.exec();
            ctx.violation("Ontology::from_bytes", &format!("[binary v{version}] panics on a file laid out as documented"), json!({"case": case(), "observed": p}));
        }
    }
}

/// How a Builder run with unresolvable calls ended
enum Unresolvable {
    Built(Ontology),
    /// a call with valid arguments failed or panicked
    ValidCallFailed(String),
    /// a call naming an absent term panicked (what such a call does is C15's statement; no verdict here)
    OpenCallPanicked,
}

/// The Builder driven with the facts in list order; after every `annotate_*` the same call (same record, then a
/// record id used nowhere else) naming an ABSENT term. Whether such a call returns an error or accepts silently is
/// not this property's business (C15 states it); it is not a fact either way, and its result is ignored.
fn build_with_unresolvable(f: &Facts, mode: Mode, absent: &[u32]) -> Unresolvable {
    use hpo::builder::Builder;
    let mut b = Builder::new();
    for t in &f.terms {
        b.new_term(&t.name, t.id);
    }
    b.set_hpo_version(f.version);
    let mut b = b.terms_complete();
    for &(c, p) in &f.edges {
        if let Err(e) = b.add_parent(p, c) {
            return Unresolvable::ValidCallFailed(format!("add_parent({p},{c}): {e}"));
        }
    }
    let mut b = b.connect_all_terms();
    let fresh = 4_000_000u32;
    for (i, a) in f.anns.iter().enumerate() {
        let x = absent[i % absent.len()];
        let valid: Result<Result<(), String>, String> = guard(|| match (a.kind, a.term) {
            (Kind::Gene, Some(t)) => b.annotate_gene(a.id.into(), &a.name, t.into()).map_err(|e| format!("annotate_gene({},{t}): {e}", a.id)),
            (Kind::Omim, Some(t)) => b.annotate_omim_disease(a.id.into(), &a.name, t.into()).map_err(|e| format!("annotate_omim_disease({},{t}): {e}", a.id)),
            (Kind::Orpha, Some(t)) => b.annotate_orpha_disease(a.id.into(), &a.name, t.into()).map_err(|e| format!("annotate_orpha_disease({},{t}): {e}", a.id)),
            (Kind::Gene, None) => {
                b.add_gene(&a.name, a.id.into());
                Ok(())
            }
            (Kind::Omim, None) => {
                b.add_omim_disease(&a.name, a.id.into());
                Ok(())
            }
            (Kind::Orpha, None) => {
                b.add_orpha_disease(&a.name, a.id.into());
                Ok(())
            }
        });
        match valid {
            Ok(Ok(())) => {}
            Ok(Err(e)) => return Unresolvable::ValidCallFailed(e),
            Err(p) => return Unresolvable::ValidCallFailed(format!("panic: {p}")),
        }
        if a.term.is_some() {
            let open = guard(|| match a.kind {
                Kind::Gene => {
                    let _ = b.annotate_gene(a.id.into(), &a.name, x.into());
                    let _ = b.annotate_gene(fresh.into(), "NEVER", x.into());
                }
                Kind::Omim => {
                    let _ = b.annotate_omim_disease(a.id.into(), &a.name, x.into());
                    let _ = b.annotate_omim_disease(fresh.into(), "NEVER", x.into());
                }
                Kind::Orpha => {
                    let _ = b.annotate_orpha_disease(a.id.into(), &a.name, x.into());
                    let _ = b.annotate_orpha_disease(fresh.into(), "NEVER", x.into());
                }
            });
            if open.is_err() {
                return Unresolvable::OpenCallPanicked;
            }
        }
    }
    match guard(|| match b.calculate_information_content() {
        Err(e) => Err(format!("calculate_information_content: {e}")),
        Ok(b) => match mode {
            Mode::Minimal => Ok(b.build_minimal()),
            Mode::Defaults => b.build_with_defaults().map_err(|e| format!("build_with_defaults: {e}")),
        },
    }) {
        Ok(Ok(o)) => Unresolvable::Built(o),
        Ok(Err(e)) => Unresolvable::ValidCallFailed(e),
        Err(p) => Unresolvable::ValidCallFailed(format!("panic: {p}")),
    }
}

/// Run the facts through the Builder with calls naming absent terms interleaved, and compare with the model of the
/// facts: every record lists exactly the terms of its facts, every id resolves, links = closure. A record
/// WITHOUT terms that no fact names (left behind by such a call) is tolerated.
fn via_builder_unresolvable(ctx: &mut Ctx, f: &Facts, r: &RefOnt, mode: Mode, what: &str) {
    // absent ids inside the id space only (what a call does with an id >= 10^7 is outside every quantifier)
    let absent: Vec<u32> = [3u32, 0, 9_999_999, 2, 119, 4096, 1_048_576].iter().copied().filter(|x| !f.terms.iter().any(|t| t.id == *x)).collect();
    ctx.transitions(3 * f.n_steps());
    match build_with_unresolvable(f, mode, &absent) {
        Unresolvable::ValidCallFailed(e) => {
            ctx.exec();
            ctx.violation("Builder", "[builder, calls naming absent terms interleaved] construction fails on valid facts", json!({"case": f.to_json(), "observed": e, "order": what, "absent_ids_used": absent}));
        }
        Unresolvable::OpenCallPanicked => {
            ctx.exec();
            let space = ctx.spaces.last().map(|s| s.0.clone()).unwrap_or_default();
            ctx.bump(&format!("no verdict: {space}: a call naming an absent term panicked"), 1);
        }
        Unresolvable::Built(ont) => {
            let case = || json!({"facts": f.to_json(), "order": what, "additional_calls": "after every annotate_*: the same call and one for a fresh record id (4000000), both with an absent term id; their return value is ignored", "absent_ids_used_in_rotation": absent});
            judge(ctx, &ont, r, mode, "builder, calls naming absent terms interleaved", &case, Open { refusal: false, bare_extras: true });
        }
    }
}

/// Flag pattern derived from the annotated subset: every second annotated non-root term is obsolete,
/// the last term (if not a root) names the first term as replacement. Flags do not change any link.
fn flag_terms(f: &mut Facts, s: u32) {
    let n = f.terms.len();
    let first = f.terms[0].id;
    let mut toggle = s % 2 == 0;
    for i in 0..n {
        let id = f.terms[i].id;
        if id == 1 || id == 118 {
            continue;
        }
        if s >> i & 1 == 1 {
            if toggle {
                f.terms[i].obsolete = true;
            }
            toggle = !toggle;
        }
        if i == n - 1 && s % 3 == 0 {
            f.terms[i].replacement = Some(first);
        }
    }
}

fn inherits(d: &Dag, s: u32) -> bool {
    (0..d.n).any(|i| s >> i & 1 == 1 && d.parents[i] != 0)
}

/// Annotation fact orders explored for one (DAG, S): every order of g1's facts, the round-robin
/// interleaving, and every single repeated fact.
pub fn orders(groups: &AnnGroups) -> Vec<(Vec<AnnFact>, String)> {
    let mut out = vec![];
    let k = groups.g1.len();
    for p in permutations(k) {
        out.push((groups.sequential(&p), format!("g1 facts in order {p:?}, then g2, omim, orpha")));
    }
    out.push((groups.interleaved(), "round-robin interleaving of all records".to_string()));
    let ident: Vec<usize> = (0..k).collect();
    // the OMIM and the first ORPHA record's facts in every order as well (|o1| = |r1| = |S|: rot1 / rot2 of S)
    for p in permutations(groups.o1.len()).into_iter().skip(1) {
        let mut g = AnnGroups { g1: groups.g1.clone(), g2: groups.g2.clone(), o1: p.iter().map(|&i| groups.o1[i].clone()).collect(), r1: groups.r1.clone(), r2: groups.r2.clone(), bare: groups.bare.clone() };
        if groups.r1.len() == p.len() {
            g.r1 = p.iter().map(|&i| groups.r1[i].clone()).collect();
        }
        out.push((g.sequential(&ident), format!("omim and orpha facts in order {p:?}")));
    }
    let base = groups.sequential(&ident);
    // the bare registration (add_gene / add_*_disease) of records that are also annotated, before, between and
    // after their annotation facts
    {
        // (only records that do have annotation facts: registering one that has none would add a record)
        let regs: Vec<(crate::model::Kind, u32, &str)> = [(super::common::G1, !groups.g1.is_empty()), (super::common::O1, !groups.o1.is_empty()), (super::common::R1, !groups.r1.is_empty())].into_iter().filter(|x| x.1).map(|x| x.0).collect();
        for (pos, what) in [(0usize, "first"), (base.len() / 2, "in the middle"), (base.len(), "last")] {
            let mut v = base.clone();
            for rec in &regs {
                v.insert(pos.min(v.len()), Facts::ann(rec.0, rec.1, rec.2, None));
            }
            out.push((v, format!("annotated records additionally registered without a term, {what}")));
        }
    }
    for i in 0..base.len() {
        if base[i].term.is_none() {
            continue;
        }
        let mut v = base.clone();
        v.push(base[i].clone());
        out.push((v, format!("fact #{i} repeated at the end")));
    }
    if !base.is_empty() {
        let mut v = base.clone();
        let dup = v[base.len() / 2].clone();
        v.insert(base.len() / 2, dup);
        out.push((v, "middle fact repeated immediately".to_string()));
    }
    out
}

/// Fact set over the first three ids of POOL_ROOTS in which records of one kind SHARE their name: genes 11 <- S and
/// 12 <- complement(S) both named SAME, OMIM 1 <- S and 2 <- rot1(S) both named 'Same disease', ORPHA 1 <- rot2(S)
/// and 2 <- S with that name too, a bare gene 13 named SAME (names are not keys). Also used by C14.
pub fn same_named_facts(d: &Dag, s: u32) -> Facts {
    let n = d.n;
    let mut f = Facts::from_dag(d, &POOL_ROOTS);
    f.version = (2024, 2, 29);
    let ids: Vec<u32> = f.terms.iter().map(|t| t.id).collect();
    let full = (1u32 << n) - 1;
    let on = |mask: u32| -> Vec<u32> { crate::space::bits(mask & full, n).iter().map(|i| ids[*i]).collect() };
    for t in on(s) {
        f.anns.push(Facts::ann(Kind::Gene, 11, "SAME", Some(t)));
        f.anns.push(Facts::ann(Kind::Omim, 1, "Same disease", Some(t)));
        f.anns.push(Facts::ann(Kind::Orpha, 2, "Same disease", Some(t)));
    }
    for t in on(!s) {
        f.anns.push(Facts::ann(Kind::Gene, 12, "SAME", Some(t)));
    }
    for t in on(super::common::rot(s, 1, n)) {
        f.anns.push(Facts::ann(Kind::Omim, 2, "Same disease", Some(t)));
    }
    for t in on(super::common::rot(s, 2, n)) {
        f.anns.push(Facts::ann(Kind::Orpha, 1, "Same disease", Some(t)));
    }
    f.anns.push(Facts::ann(Kind::Gene, 13, "SAME", None));
    f
}

pub fn explore(ctx: &mut Ctx, label: &str) {
    let thorough = ctx.tier.thorough();
    // ---- builder path
    let max_n = if thorough { 5 } else { 4 };
    for n in 1..=max_n {
        let dags = all_dags(n);
        ctx.space(&format!("{label}/builder/D{n}/all-subsets-x-all-orders"), &format!("{} labelled DAGs x 2^{n} annotated subsets S (g1<-S, g2<-~S, omim<-rot1 S, orpha<-rot2 S, bare records of every kind) x |S|! orders of the gene's and of the disease facts + interleaving + bare registration of annotated records + repeated facts; D(<=4): additionally calls naming absent terms after every fact", dags.len()));
        for d in &dags {
            for s in 0..(1u32 << n) {
                if !ctx.take() {
                    continue;
                }
                ctx.state();
                if inherits(d, s) {
                    ctx.nontrivial();
                }
                let base = Facts::from_dag(d, &POOL);
                let ids: Vec<u32> = base.terms.iter().map(|t| t.id).collect();
                let groups = ann_groups(s, &ids);
                let ident: Vec<usize> = (0..groups.g1.len()).collect();
                let r = RefOnt::derive(&Facts { anns: groups.sequential(&ident), ..base.clone() });
                let all = if n == 5 {
                    // thorough D5: all |S|! orders, no repeated-fact variants (covered for n<=4)
                    permutations(groups.g1.len()).into_iter().map(|p| (groups.sequential(&p), format!("g1 order {p:?}"))).collect()
                } else {
                    orders(&groups)
                };
                let n_orders = all.len();
                for (anns, what) in all {
                    let f = Facts { anns, ..base.clone() };
                    via_builder(ctx, &f, &r, Mode::Minimal, &what);
                }
                if n <= 4 {
                    // calls naming absent term ids after every fact: whatever such a call returns, it is not an annotation
                    let f = Facts { anns: groups.interleaved(), ..base.clone() };
                    via_builder_unresolvable(ctx, &f, &r, Mode::Minimal, "interleaved");
                }
                ctx.sample(|| json!({"dag": d.describe(), "ids": ids, "S": crate::space::bits(s, n), "orders": n_orders}));
            }
        }
    }

    // ---- quick tier: all 5-term graphs with one or two annotated terms in both orders (the full D5 space is thorough)
    if !thorough {
        let n = 5;
        let dags = all_dags(n);
        ctx.space(&format!("{label}/builder/D5/one-or-two-annotated-terms"), &format!("{} labelled DAGs x 15 subsets S with |S| <= 2 x both orders of the gene's facts", dags.len()));
        for d in &dags {
            if !ctx.take() {
                continue;
            }
            ctx.state();
            if d.has_diamond() {
                ctx.nontrivial();
            }
            let base = Facts::from_dag(d, &POOL);
            let ids: Vec<u32> = base.terms.iter().map(|t| t.id).collect();
            for s in 1..(1u32 << n) {
                if s.count_ones() > 2 {
                    continue;
                }
                let groups = ann_groups(s, &ids);
                let ident: Vec<usize> = (0..groups.g1.len()).collect();
                let r = RefOnt::derive(&Facts { anns: groups.sequential(&ident), ..base.clone() });
                for p in permutations(groups.g1.len()) {
                    let f = Facts { anns: groups.sequential(&p), ..base.clone() };
                    via_builder(ctx, &f, &r, Mode::Minimal, &format!("g1 order {p:?}"));
                }
            }
            ctx.sample(|| json!({"dag": d.describe(), "ids": ids, "subsets": 15}));
        }
        // ... and every 16th 5-term graph with three annotated terms: the gene's three facts in their three rotations
        // (a propagation fault that needs three annotated terms in a particular order on five terms)
        ctx.space(&format!("{label}/builder/D5/three-annotated-terms"), &format!("every 16th of the {} labelled 5-term DAGs x 10 subsets S with |S| = 3 x the three rotations of the gene's facts", dags.len()));
        for (di, d) in dags.iter().enumerate() {
            if di % 16 != 5 {
                continue;
            }
            if !ctx.take() {
                continue;
            }
            ctx.state();
            if d.has_diamond() {
                ctx.nontrivial();
            }
            let base = Facts::from_dag(d, &POOL);
            let ids: Vec<u32> = base.terms.iter().map(|t| t.id).collect();
            for s in 1..(1u32 << n) {
                if s.count_ones() != 3 {
                    continue;
                }
                let groups = ann_groups(s, &ids);
                let r = RefOnt::derive(&Facts { anns: groups.sequential(&[0, 1, 2]), ..base.clone() });
                for p in [[0usize, 1, 2], [1, 2, 0], [2, 0, 1]] {
                    let f = Facts { anns: groups.sequential(&p), ..base.clone() };
                    via_builder(ctx, &f, &r, Mode::Minimal, &format!("g1 order {p:?}"));
                }
            }
            ctx.sample(|| json!({"dag": d.describe(), "ids": ids, "subsets": 10}));
        }
    }

    // ---- same record id supplied under different spellings of its name: which name survives is
    // unspecified (don't-care), and so is whether an annotate_* call that brings another name for a known id is
    // accepted at all (the statement speaks of (record, term) facts); if the build succeeds everything else must hold
    for n in 2..=3usize {
        let dags = all_dags(n);
        ctx.space(&format!("{label}/builder/D{n}/renamed-records"), &format!("{} labelled DAGs x 2^{n} subsets x |S|! orders; every later fact of a record spells the record's name differently (an annotate_* call that refuses ANOTHER spelling of a record supplied before ends the run without verdict, counted; any other failing call is a violation), and once the odd spellings one per record (strict)", dags.len()));
        for d in &dags {
            for s in 1..(1u32 << n) {
                if !ctx.take() {
                    continue;
                }
                ctx.state();
                if inherits(d, s) {
                    ctx.nontrivial();
                }
                let base = Facts::from_dag(d, &POOL);
                let ids: Vec<u32> = base.terms.iter().map(|t| t.id).collect();
                let groups = ann_groups(s, &ids);
                for p in permutations(groups.g1.len()) {
                    for variant in 0..2 {
                        let mut anns = if variant == 0 { groups.sequential(&p) } else { groups.interleaved() };
                        let canonical: Vec<(crate::model::Kind, u32, String)> = anns.iter().map(|a| (a.kind, a.id, a.name.clone())).collect();
                        for (i, a) in anns.iter_mut().enumerate() {
                            if i % 2 == 1 || i > 2 {
                                a.name = format!("{} (spelling {i})", a.name.to_lowercase());
                            }
                        }
                        let f = Facts { anns, ..base.clone() };
                        // the model keeps the canonical name; the observation's name is normalised to it
                        let mut fm = f.clone();
                        for (a, c) in fm.anns.iter_mut().zip(canonical.iter()) {
                            a.name = c.2.clone();
                        }
                        let r = RefOnt::derive(&fm);
                        ctx.transitions(f.n_steps());
                        ctx.exec();
                        ctx.validated();
                        let case = || json!({"facts": f.to_json(), "rust": f.to_rust(false)});
                        match drive::build(&f, Mode::Minimal) {
                            // a Builder that insists on one name per record id leaves the statement intact - but only the
                            // call that brings ANOTHER spelling for a record id supplied before is open; the first call
                            // for a record, or one repeating the spelling, is a valid call whatever characters the name has
                            Err(e) if failed_call_is_open(&f, &e, &|earlier, a| earlier.iter().any(|b| b.kind == a.kind && b.id == a.id && b.name != a.name)) => refused(ctx, "annotate_* refuses another spelling of the name of a record supplied before"),
                            Err(e) => ctx.violation("Builder", "[builder] construction fails on valid facts", json!({"case": case(), "observed": e})),
                            Ok(ont) => match crate::obs::Obs::of(&ont) {
                                Err(inc) => ctx.violation(&inc.site, "[builder, renamed records] read API inconsistent or panicking", json!({"case": case(), "observed": inc.what})),
                                Ok(mut obs) => {
                                    for k in 0..3 {
                                        for rec in obs.recs[k].iter_mut() {
                                            let supplied = f.anns.iter().any(|a| a.kind.idx() == k && a.id == rec.id && a.name == rec.name);
                                            if supplied {
                                                if let Some(m) = r.recs[k].get(&rec.id) {
                                                    rec.name = m.name.clone();
                                                }
                                            }
                                        }
                                    }
                                    let exp = crate::obs::Obs::expected(&r, Mode::Minimal);
                                    if let Some((site, sig, det)) = obs.diff(&exp, false) {
                                        ctx.violation(&site, &format!("[builder, renamed records] {sig}"), json!({"case": case(), "difference": det}));
                                    }
                                }
                            },
                        }
                        if variant == 1 {
                            break;
                        }
                    }
                }
                // the odd spellings (lower case, blanks, parentheses) used CONSISTENTLY, one per record: plain valid facts -
                // a refusal here is not about a re-spelled record and is a violation
                {
                    let mut anns = groups.interleaved();
                    for a in anns.iter_mut() {
                        a.name = format!("{} (spelling {})", a.name.to_lowercase(), a.id % 7);
                    }
                    let f = Facts { anns, ..base.clone() };
                    let r = RefOnt::derive(&f);
                    ctx.transitions(f.n_steps());
                    match drive::build(&f, Mode::Minimal) {
                        Err(e) => {
                            ctx.exec();
                            ctx.violation("Builder", "[builder] construction fails on valid facts", json!({"case": f.to_json(), "observed": e, "order": "names with lower case, blanks and parentheses, one spelling per record"}));
                        }
                        // (through `judge`: besides the observation this asks every record id of the lookups of the other kinds)
                        Ok(ont) => {
                            let case = || json!({"facts": f.to_json(), "order": "names with lower case, blanks and parentheses, one spelling per record", "rust": f.to_rust(false)});
                            judge(ctx, &ont, &r, Mode::Minimal, "builder", &case, Open { refusal: false, bare_extras: false });
                        }
                    }
                }
                ctx.sample(|| json!({"dag": d.describe(), "ids": ids, "S": crate::space::bits(s, n), "renamed": true}));
            }
        }
    }

    // ---- the same numeric record id in all three kinds, annotated to the same terms: kinds must not leak,
    // adjacent rows / calls with equal (id, term) but different kind must all count
    for n in 2..=3usize {
        let dags = all_dags(n);
        ctx.space(&format!("{label}/shared-ids-across-kinds/D{n}"), &format!("{} labelled DAGs over {:?} x subsets S with 1 <= |S| <= 2: gene 7, OMIM 7 and ORPHA 7 all annotated to S (and gene 8 / OMIM 8 / ORPHA 8 to the complement); Builder: all orders of the 3|S| facts; text: all orders of the disease rows, both loaders; binary v3", dags.len(), &POOL_ROOTS[..n]));
        for d in &dags {
            for s in 1..(1u32 << n) {
                if s.count_ones() > 2 {
                    continue;
                }
                if !ctx.take() {
                    continue;
                }
                ctx.state();
                if inherits(d, s) {
                    ctx.nontrivial();
                }
                let mut base = Facts::from_dag(d, &POOL_ROOTS);
                base.version = (2024, 2, 29);
                let ids: Vec<u32> = base.terms.iter().map(|t| t.id).collect();
                let full = (1u32 << n) - 1;
                let mut main: Vec<AnnFact> = vec![];
                let mut rest: Vec<AnnFact> = vec![];
                for (kind, name) in [(crate::model::Kind::Omim, "Seven (omim)"), (crate::model::Kind::Orpha, "Seven (orpha)"), (crate::model::Kind::Gene, "SEVEN")] {
                    for i in 0..n {
                        if s >> i & 1 == 1 {
                            main.push(Facts::ann(kind, 7, name, Some(ids[i])));
                        } else if (full & !s) >> i & 1 == 1 {
                            rest.push(Facts::ann(kind, 8, &format!("{name} 8"), Some(ids[i])));
                        }
                    }
                }
                let all: Vec<AnnFact> = main.iter().chain(rest.iter()).cloned().collect();
                let r = RefOnt::derive(&Facts { anns: all.clone(), ..base.clone() });
                // Builder: every order of the main facts
                for p in permutations(main.len()) {
                    let anns: Vec<AnnFact> = p.iter().map(|i| main[*i].clone()).chain(rest.iter().cloned()).collect();
                    let f = Facts { anns, ..base.clone() };
                    via_builder(ctx, &f, &r, Mode::Defaults, &format!("shared-id facts in order {p:?}"));
                }
                // text: every order of the disease rows (the first 2|S| main facts are disease facts)
                let nd_main = 2 * s.count_ones() as usize;
                let f = Facts { anns: all.clone(), ..base.clone() };
                let nd_total = f.anns.iter().filter(|a| a.kind != crate::model::Kind::Gene).count();
                for p in permutations(nd_main) {
                    // disease rows in file order = main disease facts (permuted) then the others
                    let mut order: Vec<usize> = vec![];
                    let dis_idx: Vec<usize> = (0..f.anns.len()).filter(|i| f.anns[*i].kind != crate::model::Kind::Gene).collect();
                    let _ = &dis_idx;
                    for i in &p {
                        order.push(*i);
                    }
                    for i in nd_main..nd_total {
                        order.push(i);
                    }
                    let mut o = JaxOpts::default();
                    o.disease_row_order = Some(order);
                    via_jax(ctx, &f, &o, false, &format!("shared-id disease rows in order {p:?}"));
                    if p[0] == 0 {
                        via_jax(ctx, &f, &o, true, &format!("shared-id disease rows in order {p:?} (transitive loader)"));
                    }
                }
                via_binary(ctx, &f, &EncOpts::v(3), "shared ids across kinds");
                ctx.sample(|| json!({"dag": d.describe(), "ids": ids, "S": crate::space::bits(s, n), "shared_record_id": 7}));
            }
        }
        jax::cleanup();
    }

    // ---- structured large graphs: inheritance across more than 30 ancestors / parents
    {
        let family = super::common::large_family();
        ctx.space(&format!("{label}/large-structured"), &format!("{} large shapes; gene 11 on the last term, gene 22 on every 7th term, OMIM on the middle term, ORPHA 77 on the top term and ORPHA 78 on the last two terms, gene 44 and OMIM 600004 on every term, bare records; 60 further genes, 25 OMIM and 25 ORPHA diseases spread over the last three terms (their ancestors inherit more records per term than the per-term containers are pre-sized for: 50 / 20 / 20); facts in list order and reversed; Builder, binary v3, JAX", family.len()));
        for (base, what) in &family {
            if !ctx.take() {
                continue;
            }
            ctx.state();
            ctx.nontrivial();
            let ids: Vec<u32> = base.terms.iter().map(|t| t.id).collect();
            let n = ids.len();
            let mut anns: Vec<AnnFact> = vec![];
            anns.push(Facts::ann(crate::model::Kind::Gene, 11, "GENE1", Some(ids[n - 1])));
            for i in (0..n).step_by(7) {
                anns.push(Facts::ann(crate::model::Kind::Gene, 22, "GENE2", Some(ids[i])));
            }
            anns.push(Facts::ann(crate::model::Kind::Gene, 33, "GENE3", None));
            anns.push(Facts::ann(crate::model::Kind::Omim, 600_001, "Disease one", Some(ids[n / 2])));
            anns.push(Facts::ann(crate::model::Kind::Omim, 600_002, "Disease two, bare", None));
            anns.push(Facts::ann(crate::model::Kind::Orpha, 77, "Orpha one", Some(ids[0])));
            anns.push(Facts::ann(crate::model::Kind::Orpha, 78, "Orpha two", Some(ids[n - 1])));
            anns.push(Facts::ann(crate::model::Kind::Orpha, 78, "Orpha two", Some(ids[n - 2])));
            anns.push(Facts::ann(crate::model::Kind::Orpha, 79, "Orpha three, bare", None));
            // records with very many direct terms (beyond 8-bit counts on shapes with > 255 terms): gene 44 and
            // OMIM 600004 on every term, in an order that is neither ascending nor descending
            for i in (0..n).step_by(2).chain((1..n).step_by(2).rev()) {
                anns.push(Facts::ann(crate::model::Kind::Gene, 44, "GENE4", Some(ids[i])));
                anns.push(Facts::ann(crate::model::Kind::Omim, 600_004, "Disease four, everywhere", Some(ids[i])));
            }
            // many records per TERM: 60 genes, 25 OMIM and 25 ORPHA diseases, each on one of the last three terms
            // (in rotation, the kinds interleaved), so that every ancestor of those terms inherits them from several
            // descendants - more than the 50 / 20 / 20 entries the per-term sets are created with
            for j in 0..60u32 {
                anns.push(Facts::ann(Kind::Gene, 1000 + j, &format!("MANY{j}"), Some(ids[n - 1 - (j as usize % 3)])));
                if j < 25 {
                    anns.push(Facts::ann(Kind::Omim, 610_000 + j, &format!("Many omim {j}"), Some(ids[n - 1 - ((j as usize + 1) % 3)])));
                    anns.push(Facts::ann(Kind::Orpha, 9000 + j, &format!("Many orpha {j}"), Some(ids[n - 1 - ((j as usize + 2) % 3)])));
                }
            }
            let f = Facts { anns, ..base.clone() };
            let r = RefOnt::derive(&f);
            for reversed in [false, true] {
                let mut g = f.clone();
                if reversed {
                    g.anns.reverse();
                    g.terms.reverse();
                }
                let w = format!("{what}; {}", if reversed { "terms and annotation facts reversed" } else { "list order" });
                via_builder(ctx, &g, &r, Mode::Minimal, &w);
                via_binary(ctx, &g, &EncOpts::v(3), &w);
                via_jax(ctx, &g, &JaxOpts::default(), false, &w);
            }
            ctx.sample(|| json!({"shape": what, "n_terms": n}));
        }
        jax::cleanup();
    }

    // ---- very deep shapes (beyond round-number depth / work budgets of an upward walk): a gene on the bottom term,
    // an OMIM disease on the side term, an ORPHA disease half-way; every term above must be linked
    {
        let family = super::common::very_deep_family();
        ctx.space(&format!("{label}/very-deep"), &format!("{} shapes (chains of 1100 and 2100 terms with a shortcut, in the longer one descendants have smaller ids; a ladder of 14 levels with 2^14 routes): gene 11 on the bottom term of the chain, OMIM 600001 on the side term, ORPHA 77 on the middle term, ORPHA 78 on the top, bare records; Builder and binary v3, one case each", family.len()));
        for (base, what) in &family {
            let ids: Vec<u32> = base.terms.iter().map(|t| t.id).collect();
            let n = ids.len();
            let mk = || -> Facts {
                let mut f = base.clone();
                // (in the chains the last term is the side term, the last but one the bottom of the chain)
                f.anns.push(Facts::ann(Kind::Gene, 11, "GENE1", Some(ids[n - 2])));
                f.anns.push(Facts::ann(Kind::Gene, 33, "GENE3", None));
                f.anns.push(Facts::ann(Kind::Omim, 600_001, "Disease one", Some(ids[n - 1])));
                f.anns.push(Facts::ann(Kind::Omim, 600_002, "Disease two, bare", None));
                f.anns.push(Facts::ann(Kind::Orpha, 77, "Orpha one", Some(ids[n / 2])));
                f.anns.push(Facts::ann(Kind::Orpha, 78, "Orpha two", Some(ids[0])));
                f.anns.push(Facts::ann(Kind::Orpha, 79, "Orpha three, bare", None));
                f
            };
            for path in 0..2 {
                if !ctx.take() {
                    continue;
                }
                ctx.state();
                ctx.nontrivial();
                let f = mk();
                if path == 0 {
                    let r = RefOnt::derive(&f);
                    via_builder(ctx, &f, &r, Mode::Minimal, what);
                } else {
                    via_binary(ctx, &f, &EncOpts::v(3), what);
                }
                ctx.sample(|| json!({"shape": what, "n_terms": n, "path": if path == 0 { "Builder" } else { "binary v3" }}));
            }
        }
    }

    // ---- binary path (ids contain both roots)
    {
        let n = 4;
        let dags = all_dags(n);
        ctx.space(&format!("{label}/binary/D4/v1-v3"), &format!("{} labelled DAGs over {:?} x 16 subsets x v3: all |S|! term orders inside the gene record + all 6 gene-record orders; v1, v2: canonical order", dags.len(), &POOL_ROOTS[..n]));
        for d in &dags {
            for s in 0..(1u32 << n) {
                if !ctx.take() {
                    continue;
                }
                ctx.state();
                if inherits(d, s) {
                    ctx.nontrivial();
                }
                let mut base = Facts::from_dag(d, &POOL_ROOTS);
                base.version = (2024, 2, 29);
                let ids: Vec<u32> = base.terms.iter().map(|t| t.id).collect();
                // annotated terms may be obsolete and/or replaced: flags follow the annotated subset
                flag_terms(&mut base, s);
                let groups = ann_groups(s, &ids);
                let ident: Vec<usize> = (0..groups.g1.len()).collect();
                for p in permutations(groups.g1.len()) {
                    let f = Facts { anns: groups.sequential(&p), ..base.clone() };
                    via_binary(ctx, &f, &EncOpts::list_order(3), &format!("term ids inside gene record in order {p:?}"));
                }
                // every record's term ids descending (the whole fact list reversed): genes, OMIM and ORPHA records
                {
                    let mut anns = groups.sequential(&ident);
                    anns.reverse();
                    let f = Facts { anns, ..base.clone() };
                    via_binary(ctx, &f, &EncOpts::list_order(3), "fact list reversed: term ids inside every gene, OMIM and ORPHA record descending");
                }
                // gene record orders: permute the three gene groups
                let gg: [Vec<AnnFact>; 3] = [groups.g1.clone(), groups.g2.clone(), vec![groups.bare[0].clone()]];
                for p in permutations(3) {
                    let mut anns: Vec<AnnFact> = vec![];
                    for &i in &p {
                        anns.extend(gg[i].iter().cloned());
                    }
                    anns.push(groups.bare[3].clone());
                    anns.extend(groups.r2.iter().cloned());
                    anns.extend(groups.r1.iter().cloned());
                    anns.push(groups.bare[2].clone());
                    anns.push(groups.bare[1].clone());
                    anns.extend(groups.o1.iter().cloned());
                    let f = Facts { anns, ..base.clone() };
                    via_binary(ctx, &f, &EncOpts::v(3), &format!("gene records in order {p:?}, orpha before omim facts"));
                }
                let f = Facts { anns: groups.sequential(&ident), ..base.clone() };
                via_binary(ctx, &f, &EncOpts::v(1), "canonical");
                via_binary(ctx, &f, &EncOpts::v(2), "canonical");
                // a term id listed twice inside a record ("repeated facts"): refused, or an ontology consistent with
                // the records it reports itself (no id twice in any list)
                for version in [3u8, 1] {
                    let mut o = EncOpts::v(version);
                    o.repeat_term_ids = true;
                    let pf = crate::encode::project(&f, version);
                    let bytes = crate::encode::encode(&pf, &o);
                    ctx.transitions(pf.n_steps());
                    repeated_ids_exact_or_refused(ctx, &bytes, &RefOnt::derive(&pf), &format!("binary v{version}, first term id of every record repeated at its end"), &|| json!({"facts": pf.to_json(), "format_version": version}));
                }
                // every record written twice (without its last term, then completely)
                super::common::via_binary_repeated(ctx, &f, 3, "canonical");
                let rev: Vec<usize> = ident.iter().rev().copied().collect();
                let mut fr = Facts { anns: groups.sequential(&rev), ..base.clone() };
                super::common::via_binary_repeated(ctx, &fr, 3, "gene 1's terms reversed");
                fr.anns.reverse();
                super::common::via_binary_repeated(ctx, &fr, 2, "all facts reversed");
                ctx.sample(|| json!({"dag": d.describe(), "ids": ids, "S": crate::space::bits(s, n)}));
            }
        }
    }

    // ---- JAX text path
    for n in 2..=4usize {
        let dags = all_dags(n);
        ctx.space(&format!("{label}/jax/D{n}"), &format!("{} labelled DAGs over {:?} x 2^{n} subsets (the annotation pattern without its bare records, plus genes 55, 56, OMIM 600055 on the first and ORPHA 81 on the last term) x row orders (n<=3: all |S|! gene-row orders; n=4: canonical, reversed, interleaved) x both loaders; same-named records (a loader may refuse them), filled optional columns, DECIPHER / NOT / comment rows (a disease that only has NOT rows may exist as a record without terms), repeated rows", dags.len(), &POOL_ROOTS[..n]));
        for d in &dags {
            for s in 0..(1u32 << n) {
                if !ctx.take() {
                    continue;
                }
                ctx.state();
                if inherits(d, s) {
                    ctx.nontrivial();
                }
                let mut base = Facts::from_dag(d, &POOL_ROOTS);
                base.version = (2024, 2, 29);
                let ids: Vec<u32> = base.terms.iter().map(|t| t.id).collect();
                flag_terms(&mut base, s);
                let mut groups = ann_groups(s, &ids);
                text_extras(&mut groups, &ids);
                let k = groups.g1.len();
                let perms: Vec<Vec<usize>> = if n <= 3 { permutations(k) } else { let mut v = vec![(0..k).collect::<Vec<_>>()]; if k > 1 { v.push((0..k).rev().collect()); } v };
                for (i, p) in perms.iter().enumerate() {
                    let f = Facts { anns: groups.sequential(p), ..base.clone() };
                    via_jax(ctx, &f, &JaxOpts::default(), false, &format!("gene rows of g1 in order {p:?}"));
                    if i == 0 {
                        via_jax(ctx, &f, &JaxOpts::default(), true, "canonical, transitive loader");
                    }
                }
                let f = Facts { anns: groups.interleaved(), ..base.clone() };
                via_jax(ctx, &f, &JaxOpts::default(), false, "interleaved rows");
                // two records of one kind sharing their symbol / name, rows adjacent and separated (a row-level
                // "skip what repeats the previous row" keyed on the name would drop facts). A loader that insists on
                // unique symbols / names and refuses such files leaves the statement intact; one that loads them
                // must get every fact right
                for kind in crate::model::KINDS {
                    for adjacent in [true, false] {
                        if let Some(g) = jax::with_shared_name(&f, kind, adjacent) {
                            let w = format!("two {} records with one name, rows {}", kind.name(), if adjacent { "adjacent" } else { "separated" });
                            let open = Open { refusal: true, bare_extras: false };
                            via_jax_open(ctx, &g, &JaxOpts::default(), false, &w, open);
                            via_jax_open(ctx, &g, &JaxOpts::default(), true, &w, open);
                        }
                    }
                }
                // the optional columns of both files filled with row-dependent values (only the id, name / symbol,
                // qualifier and term columns carry facts)
                {
                    let mut o = JaxOpts::default();
                    o.distractors = vec![jax::Distractor::HpoaFilledColumns, jax::Distractor::GeneTrailingColumns];
                    via_jax(ctx, &f, &o, false, "interleaved rows, optional columns filled");
                    via_jax(ctx, &f, &o, true, "interleaved rows, optional columns filled (transitive loader)");
                }
                // rows that are not annotations of an OMIM / ORPHA disease: another database (DECIPHER), a NOT-qualified
                // row of a disease that has positive rows, a NOT-qualified twin of every positive row, comments. The
                // ORPHA disease that occurs in a NOT row only is annotated to no term: whether it exists as a record
                // without terms is left open (it must not be linked to anything)
                {
                    let mut o = JaxOpts::default();
                    o.distractors = vec![jax::Distractor::DecipherRow, jax::Distractor::NotRowOmimExisting, jax::Distractor::NotRowOrphaOnly, jax::Distractor::NotRowTwinsFirst, jax::Distractor::HpoaCommentMiddle];
                    via_jax_open(ctx, &f, &o, false, "interleaved rows; DECIPHER row, NOT rows, comment line", Open { refusal: false, bare_extras: true });
                }
                // repeated rows: every row twice (adjacent), and the whole file twice (distant repeats)
                let mut twice: Vec<AnnFact> = vec![];
                for a in &f.anns {
                    twice.push(a.clone());
                    twice.push(a.clone());
                }
                via_jax(ctx, &Facts { anns: twice, ..base.clone() }, &JaxOpts::default(), false, "every row repeated immediately");
                let mut again = f.anns.clone();
                again.extend(f.anns.iter().cloned());
                via_jax(ctx, &Facts { anns: again.clone(), ..base.clone() }, &JaxOpts::default(), false, "all rows repeated after the last row");
                via_jax(ctx, &Facts { anns: again, ..base.clone() }, &JaxOpts::default(), true, "all rows repeated after the last row (transitive loader)");
                // disease rows reversed
                let fc = Facts { anns: groups.sequential(&(0..k).collect::<Vec<_>>()), ..base.clone() };
                let nd = fc.anns.iter().filter(|a| a.kind != crate::model::Kind::Gene && a.term.is_some()).count();
                let mut o = JaxOpts::default();
                o.disease_row_order = Some((0..nd).rev().collect());
                via_jax(ctx, &fc, &o, false, "disease rows reversed");
                ctx.sample(|| json!({"dag": d.describe(), "ids": ids, "S": crate::space::bits(s, n)}));
            }
        }
        jax::cleanup();
    }

    // ---- sub_ontology of annotated ontologies is consistent with its own facts
    for n in 2..=4usize {
        let dags = all_dags(n);
        ctx.space(&format!("{label}/sub_ontology/D{n}"), &format!("{} labelled DAGs x 2^{n} subsets x every root, leaves = every term below root and each single leaf: the result's links are the closure of its own records (a refused call gives no verdict here - C14 states when it must succeed)", dags.len()));
        for d in &dags {
            for s in 0..(1u32 << n) {
                if !ctx.take() {
                    continue;
                }
                ctx.state();
                if inherits(d, s) {
                    ctx.nontrivial();
                }
                let base = Facts::from_dag(d, &POOL);
                let ids: Vec<u32> = base.terms.iter().map(|t| t.id).collect();
                let groups = ann_groups(s, &ids);
                let f = Facts { anns: groups.interleaved(), ..base.clone() };
                let r = RefOnt::derive(&f);
                ctx.transitions(f.n_steps());
                let Ok(src) = drive::build(&f, Mode::Minimal) else {
                    ctx.exec();
                    ctx.violation("Builder", "[builder] construction fails on valid facts", json!({"case": f.to_json()}));
                    continue;
                };
                // handles of another instance (same graph, no records) name the same terms
                let skeleton = match drive::build(&base, Mode::Minimal) {
                    Ok(sk) => Some(sk),
                    Err(e) => {
                        // (the same terms and links without records: valid; without it the foreign-handle calls of this
                        // case cannot be made)
                        ctx.exec();
                        ctx.violation("Builder", "[builder] construction fails on valid facts", json!({"case": base.to_json(), "observed": e}));
                        None
                    }
                };
                for &root in &ids {
                    let below: Vec<u32> = ids.iter().copied().filter(|t| *t == root || r.terms[t].ancestors.contains(&root)).collect();
                    let mut leaf_sets: Vec<Vec<u32>> = vec![below.clone()];
                    for b in &below {
                        leaf_sets.push(vec![*b]);
                    }
                    for leaves in leaf_sets {
                        if let Some(sk) = &skeleton {
                            super::c14::foreign_handles(ctx, &src, sk, &f, root, &leaves, "annotation patterns");
                        }
                        ctx.transitions(1 + leaves.len() as u64);
                        let res = crate::ctx::guard(|| src.sub_ontology(src.hpo(root).unwrap(), leaves.iter().map(|l| src.hpo(*l).unwrap()).collect::<Vec<_>>()).map_err(|e| e.to_string()));
                        let case = || json!({"source": f.to_json(), "root": root, "leaves": leaves});
                        match res {
                            Ok(Ok(sub)) => self_consistent(ctx, &sub, "sub_ontology", Mode::Minimal, &case),
                            // (when sub_ontology has to accept is C14's sentence: a refused call constructs nothing to judge)
                            Ok(Err(_)) => {
                                ctx.exec();
                                refused(ctx, "sub_ontology refuses the call (no verdict here; C14 judges refusals)");
                            }
                            Err(p) => {
                                ctx.exec();
                                ctx.violation("Ontology::sub_ontology", "[sub_ontology] panics", json!({"case": case(), "observed": p}));
                            }
                        }
                    }
                }
            }
        }
    }
    // ---- the library's own writer as a construction path: Builder -> as_bytes -> from_bytes, with records of
    // one kind that share their name (names are not keys) and records without terms
    {
        let n = 3;
        let dags = all_dags(n);
        ctx.space(&format!("{label}/as_bytes-round-trip/same-named-records"), &format!("{} labelled DAGs over {:?} x 2^{n} subsets S: genes 11<-S and 12<-complement(S) both named SAME, OMIM 1<-S, 2<-rot1(S) both named 'Same disease', ORPHA 1<-rot2(S), 2<-S with that name too, bare gene 13 named SAME; Builder (which may refuse a second record with a known name), then as_bytes -> from_bytes, then once more", dags.len(), &POOL_ROOTS[..n]));
        for d in &dags {
            for s in 0..(1u32 << n) {
                if !ctx.take() {
                    continue;
                }
                ctx.state();
                if inherits(d, s) {
                    ctx.nontrivial();
                }
                let f = same_named_facts(d, s);
                let ids: Vec<u32> = f.terms.iter().map(|t| t.id).collect();
                let r = RefOnt::derive(&f);
                ctx.transitions(3 * f.n_steps());
                let first = match crate::drive::build(&f, Mode::Defaults) {
                    Ok(o) => o,
                    // a Builder that insists on unique symbols / names within a kind leaves the statement intact - only
                    // the call whose name an EARLIER fact of the kind gave to another record is open
                    Err(e) if failed_call_is_open(&f, &e, &|earlier, a| earlier.iter().any(|b| b.kind == a.kind && b.id != a.id && b.name == a.name)) => {
                        ctx.exec();
                        refused(ctx, "annotate_* refuses a name that another record of the kind carries");
                        continue;
                    }
                    Err(e) => {
                        ctx.exec();
                        ctx.violation("Builder", "[builder] construction fails on valid facts", json!({"case": f.to_json(), "observed": e}));
                        continue;
                    }
                };
                let case = || json!({"facts": f.to_json(), "path": "Builder -> as_bytes -> from_bytes"});
                let mut cur = first;
                for round in 1..=2 {
                    match crate::ctx::guard(|| cur.as_bytes()).map(|b| crate::drive::from_bytes(&b)) {
                        Ok(Ok(Ok(next))) => {
                            crate::drive::check_against_model(ctx, &next, &r, Mode::Defaults, if round == 1 { "as_bytes round trip" } else { "second as_bytes round trip" }, &case);
                            cur = next;
                        }
                        // (that the library can read what it wrote is C07's sentence: without a second ontology there
                        // is nothing to judge here)
                        Ok(Ok(Err(_))) => {
                            ctx.exec();
                            refused(ctx, "from_bytes refuses the output of as_bytes (no verdict here; C07 judges it)");
                            break;
                        }
                        Err(p) | Ok(Err(p)) => {
                            ctx.exec();
                            ctx.violation("Ontology::as_bytes -> from_bytes", "[as_bytes round trip] panics", json!({"case": case(), "observed": p}));
                            break;
                        }
                    }
                }
                ctx.sample(|| json!({"dag": d.describe(), "ids": ids, "S": crate::space::bits(s, n)}));
            }
        }
    }
    // ---- `clone()` as a construction path: the copy must be the ontology the model describes and observationally
    // identical to its source (information content bit for bit), also after the source has been dropped.
    // (A clone copies the whole id table, about 80 ms: the space is strided.)
    for n in 2..=(if thorough { 4usize } else { 3 }) {
        let dags = all_dags(n);
        let stride = match (n, thorough) {
            (2, _) => 1,
            (3, false) => 13,
            (3, true) => 1,
            _ => 37,
        };
        ctx.space(&format!("{label}/clone/D{n}"), &format!("every {stride}th (1 = all) of the {} x 2^{n} (labelled DAG over {:?}, subset S) pairs (annotation pattern; decoder: annotated terms flagged obsolete / replaced): Builder and binary v3 -> clone() -> source dropped -> the clone against the model and against the observation of its source", dags.len(), &POOL_ROOTS[..n]));
        for (di, d) in dags.iter().enumerate() {
            for s in 0..(1u32 << n) {
                if (di * (1usize << n) + s as usize) % stride != 0 {
                    continue;
                }
                if !ctx.take() {
                    continue;
                }
                ctx.state();
                if inherits(d, s) {
                    ctx.nontrivial();
                }
                let mut base = Facts::from_dag(d, &POOL_ROOTS);
                base.version = (2024, 2, 29);
                let ids: Vec<u32> = base.terms.iter().map(|t| t.id).collect();
                let groups = ann_groups(s, &ids);
                let f = Facts { anns: groups.interleaved(), ..base.clone() };
                let mut flagged = f.clone();
                flag_terms(&mut flagged, s);
                for (path, g) in [("builder", &f), ("binary v3", &flagged)] {
                    let r = RefOnt::derive(g);
                    ctx.transitions(g.n_steps() + 1);
                    let built = if path == "builder" { drive::build(g, Mode::Defaults) } else { drive::from_bytes(&crate::encode::encode(g, &EncOpts::v(3))).unwrap_or_else(|p| Err(format!("panic: {p}"))) };
                    let src = match built {
                        Ok(o) => o,
                        Err(e) => {
                            ctx.exec();
                            ctx.violation(if path == "builder" { "Builder" } else { "Ontology::from_bytes" }, &format!("[{path}] construction fails on valid facts"), json!({"case": g.to_json(), "observed": e}));
                            continue;
                        }
                    };
                    let case = || json!({"facts": g.to_json(), "path": format!("{path} -> clone()")});
                    let before = Obs::of(&src);
                    let copy = match guard(|| src.clone()) {
                        Ok(c) => c,
                        Err(p) => {
                            ctx.exec();
                            ctx.violation("Ontology::clone", &format!("[{path} -> clone] panics"), json!({"case": case(), "observed": p}));
                            continue;
                        }
                    };
                    drop(src);
                    let after = drive::check_against_model(ctx, &copy, &r, Mode::Defaults, &format!("{path} -> clone"), &case);
                    match (after, before) {
                        (Some(after), Ok(before)) => {
                            drive::check_same(ctx, &before, &after, &format!("{path} -> clone vs. its source"), &case);
                        }
                        // (the source could not be observed: reported, not dropped - the comparison with the clone is gone)
                        (_, Err(inc)) => ctx.violation(&inc.site, &format!("[{path}, source of the clone] read API inconsistent or panicking"), json!({"case": case(), "observed": inc.what})),
                        (None, Ok(_)) => {}
                    }
                }
                ctx.sample(|| json!({"dag": d.describe(), "ids": ids, "S": crate::space::bits(s, n)}));
            }
        }
    }

    // ---- record ids over the whole 32-bit range (the patterns above use small ids): per kind the records A <- S,
    // B <- complement(S), C <- rot(S), D <- first term, E bare with (A, B, C, D, E) = (1, 2^24+1, 124 904 395,
    // u32::MAX, 2^31) - and the same with 0 in place of 1 (whether 0 is a record id at all is left open: such a
    // fact set may be refused)
    for n in 2..=3usize {
        let dags = all_dags(n);
        ctx.space(&format!("{label}/record-ids-over-the-whole-range/D{n}"), &format!("{} labelled DAGs over {:?} x 2^{n} - 1 subsets S x record ids {{1 | 0, 2^24+1, 124904395, u32::MAX, and 2^31 without terms}} in every kind (kind k uses S rotated by k): Builder, binary v1 - v3, both text loaders; with id 0 a refusal is tolerated", dags.len(), &POOL_ROOTS[..n]));
        for d in &dags {
            for s in 1..(1u32 << n) {
                if !ctx.take() {
                    continue;
                }
                ctx.state();
                if inherits(d, s) {
                    ctx.nontrivial();
                }
                let mut base = Facts::from_dag(d, &POOL_ROOTS);
                base.version = (2024, 2, 29);
                let ids: Vec<u32> = base.terms.iter().map(|t| t.id).collect();
                let full = (1u32 << n) - 1;
                for lowest in [1u32, 0] {
                    let rec = [lowest, (1 << 24) + 1, 124_904_395, u32::MAX, 1 << 31];
                    let mut f = base.clone();
                    for (ki, kind) in KINDS.iter().enumerate() {
                        let sk = super::common::rot(s, ki, n);
                        let name = |j: usize| format!("{}{}", ["GA", "GB", "GC", "GD", "GE"][j], ki);
                        for i in 0..n {
                            if sk >> i & 1 == 1 {
                                f.anns.push(Facts::ann(*kind, rec[0], &name(0), Some(ids[i])));
                            }
                            if (full & !sk) >> i & 1 == 1 {
                                f.anns.push(Facts::ann(*kind, rec[1], &name(1), Some(ids[i])));
                            }
                            if super::common::rot(sk, 1, n) >> i & 1 == 1 {
                                f.anns.push(Facts::ann(*kind, rec[2], &name(2), Some(ids[i])));
                            }
                        }
                        f.anns.push(Facts::ann(*kind, rec[3], &name(3), Some(ids[0])));
                        f.anns.push(Facts::ann(*kind, rec[4], &name(4), None));
                    }
                    // facts of the kinds interleaved (stable by position inside the kind)
                    let mut anns: Vec<AnnFact> = vec![];
                    let per_kind: Vec<Vec<AnnFact>> = KINDS.iter().map(|k| f.anns.iter().filter(|a| a.kind == *k).cloned().collect()).collect();
                    for i in 0..per_kind.iter().map(|v| v.len()).max().unwrap_or(0) {
                        for v in &per_kind {
                            if let Some(a) = v.get(i) {
                                anns.push(a.clone());
                            }
                        }
                    }
                    f.anns = anns;
                    let open = Open { refusal: lowest == 0, bare_extras: false };
                    let what = format!("record ids {rec:?}");
                    let r = RefOnt::derive(&f);
                    ctx.transitions(f.n_steps());
                    match drive::build(&f, Mode::Defaults) {
                        Ok(ont) => {
                            let case = || json!({"facts": f.to_json(), "order": what, "rust": f.to_rust(true)});
                            judge(ctx, &ont, &r, Mode::Defaults, "builder", &case, open);
                        }
                        // (only the call for record id 0 itself is open)
                        Err(e) if open.refusal && failed_annotate(&e).is_some_and(|(_, id, _)| id == 0) => {
                            ctx.exec();
                            refused(ctx, "annotate_* refuses record id 0");
                        }
                        Err(e) => {
                            ctx.exec();
                            ctx.violation("Builder", "[builder] construction fails on valid facts", json!({"case": f.to_json(), "observed": e, "order": what}));
                        }
                    }
                    for version in [3u8, 2, 1] {
                        via_binary_open(ctx, &f, version, &what, open);
                    }
                    via_jax_open(ctx, &f, &JaxOpts::default(), false, &what, open);
                    via_jax_open(ctx, &f, &JaxOpts::default(), true, &what, open);
                }
                ctx.sample(|| json!({"dag": d.describe(), "ids": ids, "S": crate::space::bits(s, n), "record_ids": [1, (1u32 << 24) + 1, 124_904_395u32, u32::MAX, 1u32 << 31]}));
            }
        }
        jax::cleanup();
    }

    // ---- sequences of ontologies built one after the other at the same address
    super::common::ontology_sequences(ctx, label, Mode::Minimal, &mut super::common::obs_oracle(Mode::Minimal));
}

/// sub_ontology with the exact oracle of C14 (kept records list exactly the retained subset of their direct
/// terms) on sources with modifier roots, for the annotation property's "sub_ontology" construction path
fn sub_exact(ctx: &mut Ctx, label: &str) {
    use std::collections::BTreeMap;
    let family = super::common::family_e(1, 2, &[200, 7]);
    ctx.space(&format!("{label}/sub_ontology/exact-records"), &format!("{} sources of family E (k <= 2; defaults, so HP:5 is a modifier root) x every root x single leaves and ordered pairs: kept records list exactly the retained subset of their direct terms", family.len()));
    for (f, what) in &family {
        if !ctx.take() {
            continue;
        }
        ctx.state();
        ctx.nontrivial();
        let r = RefOnt::derive(f);
        let ids: Vec<u32> = f.terms.iter().map(|t| t.id).collect();
        let up: BTreeMap<u32, BTreeMap<u32, usize>> = ids.iter().map(|i| (*i, r.up_distances(*i))).collect();
        ctx.transitions(f.n_steps());
        let Ok(Ok(src)) = drive::from_bytes(&crate::encode::encode(f, &EncOpts::v(3))) else {
            ctx.violation("Ontology::from_bytes", "rejects a file laid out as documented", json!({"facts": f.to_json()}));
            continue;
        };
        for &root in &ids {
            let mut collections: Vec<Vec<u32>> = ids.iter().map(|a| vec![*a]).collect();
            for a in &ids {
                for b in &ids {
                    if a != b {
                        collections.push(vec![*a, *b]);
                    }
                }
            }
            for leaves in &collections {
                let case = || json!({"family": what, "source": f.to_json(), "root": root, "leaves": leaves});
                super::c14::check_one(ctx, &src, &r, Mode::Defaults, &up, root, leaves, &case, None);
            }
        }
        ctx.sample(|| json!({"family": what, "roots": ids.len()}));
    }
}

pub fn run(ctx: &mut Ctx) {
    ctx.rule = "case = (labelled DAG, annotated subset S) with all listed supply orders of the annotation facts; records: genes 11<-S, 22<-complement(S), bare 33; OMIM 600001<-rot1(S), bare 600002; ORPHA 77<-rot2(S), 78<-every term, bare 79, 80; bare records of minimal size (totals 6 genes / 3 OMIM / 5 ORPHA); distinct by construction; non-trivial = some annotated term has ancestors (inheritance must happen)".into();
    ctx.assumptions = vec![
        "acyclic graphs; every annotated term exists (calls naming an absent term are issued between the facts, their return value is ignored: they are not facts, and what they return is C15's statement)".into(),
        "left open by the statement and therefore 'refused, or everything holds': a second name for a known record id, two records of one kind with one name, record id 0; a record WITHOUT terms that no fact names (a disease with NOT rows only, a record registered by a failing call) may exist - it must be linked to nothing".into(),
        "when sub_ontology must succeed (C14) and whether as_bytes output can be read back (C07) are not judged here: a refusal there ends the case without verdict, a panic is reported".into(),
        "bare records (no term) are not expressible in the JAX text formats and are left out of that path".into(),
        "HashMap iteration order is not controlled; observations are sorted".into(),
    ];
    explore(ctx, "ann");
    sub_exact(ctx, "ann");
}
