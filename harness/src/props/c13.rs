//! C13 - HpoSet filters, replacements and aggregates are exact.

use super::common::family_e;
use crate::ctx::{guard, Ctx};
use crate::drive;
use crate::encode::{self, EncOpts};
use crate::model::{ic_value, Facts, Kind, Mode, RefOnt};
use hpo::annotations::AnnotationId;
use hpo::term::HpoGroup;
use hpo::{HpoSet, Ontology};
use serde_json::json;
use std::collections::{BTreeMap, BTreeSet};

type V = Option<(String, String, String)>;

/// how often information_content() answered Err for a set with an empty union / an empty kind (tolerated)
static IC_ERR_TOLERATED: std::sync::atomic::AtomicU64 = std::sync::atomic::AtomicU64::new(0);

fn set_of<'a>(ont: &'a Ontology, ids: &[u32]) -> HpoSet<'a> {
    let mut g = HpoGroup::new();
    for i in ids {
        g.insert(*i);
    }
    HpoSet::new(ont, g)
}

fn ids_of(s: &HpoSet) -> Vec<u32> {
    s.iter().map(|t| t.id().as_u32()).collect()
}

/// What the model says about the terms of one ontology, computed once per ontology (not once per subset).
struct Pre<'r> {
    r: &'r RefOnt,
    is_mod: BTreeMap<u32, bool>,
    cats: BTreeMap<u32, Vec<u32>>,
}

impl<'r> Pre<'r> {
    fn new(r: &'r RefOnt) -> Pre<'r> {
        Pre { r, is_mod: r.terms.keys().map(|t| (*t, r.is_modifier(*t, Mode::Defaults))).collect(), cats: r.terms.keys().map(|t| (*t, r.term_categories(*t, Mode::Defaults))).collect() }
    }
}

fn check_subset(ont: &Ontology, pre: &Pre, x: &[u32], deep: bool) -> V {
    let set = set_of(ont, x);
    check_set(ont, pre, &set, x, deep)
}

/// The members a set hands out, sorted. The statement speaks of sets: in which order an HpoSet iterates (and
/// which member get(i) is) is stated nowhere - C12 fixes the order of an HpoGroup, not of an HpoSet - so members
/// are compared as sets; a member handed out twice stays in the list and fails the comparison.
fn members(s: &HpoSet) -> Vec<u32> {
    let mut v = ids_of(s);
    v.sort_unstable();
    v
}

/// len / is_empty / iter / contains / get of one set against the model set `xs`
fn check_basic(pre: &Pre, set: &HpoSet, xs: &BTreeSet<u32>, who: &str) -> V {
    let v = |site: &str, sig: &str, det: String| Some((site.to_string(), format!("{who}{sig}"), det));
    let want: Vec<u32> = xs.iter().copied().collect();
    if set.len() != xs.len() || set.is_empty() != xs.is_empty() {
        return v("HpoSet::len", "len/is_empty disagree with the members", format!("set {want:?}: len {}", set.len()));
    }
    let it = members(set);
    if it != want {
        return v("HpoSet::iter", "iteration does not yield exactly the members, each once", format!("set {want:?}: {:?}", ids_of(set)));
    }
    for t in pre.r.terms.keys() {
        if set.contains(&(*t).into()) != xs.contains(t) {
            return v("HpoSet::contains", "membership differs from the set", format!("set {want:?}: contains({t})"));
        }
    }
    // get: the indices 0..len hand out every member exactly once, get(len) nothing
    let mut got: Vec<Option<u32>> = (0..xs.len()).map(|i| set.get(i).map(|t| t.id().as_u32())).collect();
    got.sort_unstable();
    if got != want.iter().map(|t| Some(*t)).collect::<Vec<_>>() || set.get(xs.len()).is_some() {
        return v("HpoSet::get", "get(0..len) does not hand out every member exactly once (or get(len) is not None)", format!("set {want:?}: {got:?}, get(len) = {:?}", set.get(xs.len()).map(|t| t.id().as_u32())));
    }
    None
}

/// gene / disease unions, category counts and the aggregated information content of one set against the model set
fn check_aggregates(pre: &Pre, set: &HpoSet, xs: &BTreeSet<u32>, who: &str) -> V {
    let v = |site: &str, sig: &str, det: String| Some((site.to_string(), format!("{who}{sig}"), det));
    let r = pre.r;
    let x: Vec<u32> = xs.iter().copied().collect();
    // unions of annotations
    let mut unions: [BTreeSet<u32>; 3] = Default::default();
    for t in xs {
        for k in 0..3 {
            unions[k].extend(r.terms[t].recs[k].iter().copied());
        }
    }
    let g: BTreeSet<u32> = set.gene_ids().iter().map(|i| i.as_u32()).collect();
    let o: BTreeSet<u32> = set.omim_disease_ids().iter().map(|i| i.as_u32()).collect();
    let p: BTreeSet<u32> = set.orpha_disease_ids().iter().map(|i| i.as_u32()).collect();
    if g != unions[0] {
        return v("HpoSet::gene_ids", "not the union over the members", format!("set {x:?}: {g:?} expected {:?}", unions[0]));
    }
    if o != unions[1] {
        return v("HpoSet::omim_disease_ids", "not the union over the members", format!("set {x:?}: {o:?} expected {:?}", unions[1]));
    }
    if p != unions[2] {
        return v("HpoSet::orpha_disease_ids", "not the union over the members", format!("set {x:?}: {p:?} expected {:?}", unions[2]));
    }
    // categories
    let mut want: BTreeMap<u32, usize> = BTreeMap::new();
    for t in xs {
        for c in &pre.cats[t] {
            *want.entry(*c).or_insert(0) += 1;
        }
    }
    let got: BTreeMap<u32, usize> = set.categories().iter().map(|(k, v)| (k.as_u32(), *v)).collect();
    if got != want {
        return v("HpoSet::categories", "does not count the members per category", format!("set {x:?}: {got:?} expected {want:?}"));
    }
    // aggregated information content: -ln(|union|/N). The statement has no zero clause (C03's is about terms):
    // for an empty union the formula gives +inf and for an empty kind it has no value, so 0, +inf or an error
    // are all accepted there (for N = 0 any value); the value is demanded for 0 < |union| <= N
    let totals = [r.recs[0].len(), r.recs[1].len()];
    let open = |k: usize| unions[k].is_empty() || totals[k] == 0;
    match set.information_content() {
        Ok(ic) => {
            for (k, (name, got)) in [("gene", ic.gene()), ("omim", ic.omim_disease())].into_iter().enumerate() {
                let ok = if totals[k] == 0 {
                    true
                } else if unions[k].is_empty() {
                    got == 0.0 || got == f32::INFINITY
                } else {
                    // N is known: within 2 ulp(ln N) + 4 ulp(value) of -ln(|union|/N), and exactly 0 for |union| == N
                    // (n/N == 1 and ln N - ln N == 0 in every evaluation; a floor such as max(EPSILON) is a difference)
                    crate::obs::close_ic(got, ic_value(totals[k], unions[k].len()), totals[k])
                };
                if !ok {
                    return v("HpoSet::information_content", "not -ln(|union|/N)", format!("set {x:?}: {name} {got} expected -ln({}/{})", unions[k].len(), totals[k]));
                }
            }
        }
        Err(_) if open(0) || open(1) => {
            // tolerated, but counted (one process per worker: a static is a per-worker counter; run() books it)
            IC_ERR_TOLERATED.fetch_add(1, std::sync::atomic::Ordering::Relaxed);
        }
        Err(e) => return v("HpoSet::information_content", "returns an error", format!("set {x:?}: {e}")),
    }
    None
}

/// all observations of one (possibly long-lived) HpoSet against the model set `x`.
/// `deep`: the aggregates are asked of `set` BEFORE anything is derived from it (and again afterwards), every set
/// derived from it - by a copying or an in-place operation - is itself observed completely (len, iter, contains,
/// get, unions, categories, information content: a derived set must not answer with anything remembered for its
/// parent) and the copying operations are applied to it once more.
fn check_set(ont: &Ontology, pre: &Pre, set: &HpoSet, x: &[u32], deep: bool) -> V {
    let v = |site: &str, sig: &str, det: String| Some((site.to_string(), sig.to_string(), det));
    let r = pre.r;
    let xs: BTreeSet<u32> = x.iter().copied().collect();
    if deep {
        if let Some(f) = check_aggregates(pre, set, &xs, "") {
            return Some(f);
        }
    }
    if let Some(f) = check_basic(pre, set, &xs, "") {
        return Some(f);
    }
    // the model's results of the five operations on a model set
    let child_nodes = |s: &BTreeSet<u32>| -> BTreeSet<u32> { s.iter().copied().filter(|t| !s.iter().any(|o| r.terms[o].ancestors.contains(t))).collect() };
    let no_modifier = |s: &BTreeSet<u32>| -> BTreeSet<u32> { s.iter().copied().filter(|t| !pre.is_mod[t]).collect() };
    let no_obsolete = |s: &BTreeSet<u32>| -> BTreeSet<u32> { s.iter().copied().filter(|t| !r.terms[t].obsolete).collect() };
    let replaced = |s: &BTreeSet<u32>| -> BTreeSet<u32> { s.iter().map(|t| r.terms[t].replacement.unwrap_or(*t)).collect() };
    let list = |s: &BTreeSet<u32>| -> Vec<u32> { s.iter().copied().collect() };
    // a set derived from `set`: observed completely, and derived from once more
    let derived = |d: &HpoSet, want: &BTreeSet<u32>, how: &str| -> V {
        if !deep {
            return None;
        }
        let who = format!("[set derived by {how}] ");
        if let Some(f) = check_basic(pre, d, want, &who).or_else(|| check_aggregates(pre, d, want, &who)) {
            return Some((f.0, f.1, format!("derived from {x:?}: {}", f.2)));
        }
        for (name, got, w2) in [("child_nodes", members(&d.child_nodes()), child_nodes(want)), ("without_modifier", members(&d.without_modifier()), no_modifier(want)), ("without_obsolete", members(&d.without_obsolete()), no_obsolete(want)), ("with_replaced_obsolete", members(&d.with_replaced_obsolete()), replaced(want))] {
            if got != list(&w2) {
                return v(&format!("HpoSet::{name}"), &format!("{who}wrong result when applied to a derived set"), format!("set {x:?} -> {:?} -> {got:?} expected {:?}", list(want), list(&w2)));
            }
        }
        None
    };
    // child_nodes
    let want = child_nodes(&xs);
    let d = set.child_nodes();
    if members(&d) != list(&want) {
        return v("HpoSet::child_nodes", "does not keep exactly the members without a descendant in the set", format!("set {x:?}: {:?} expected {:?}", ids_of(&d), list(&want)));
    }
    if let Some(f) = derived(&d, &want, "child_nodes") {
        return Some(f);
    }
    // modifier
    let want = no_modifier(&xs);
    let d = set.without_modifier();
    if members(&d) != list(&want) {
        return v("HpoSet::without_modifier", "does not drop exactly the members that are or descend from a modifier root", format!("set {x:?}: {:?} expected {:?}", ids_of(&d), list(&want)));
    }
    if let Some(f) = derived(&d, &want, "without_modifier") {
        return Some(f);
    }
    let mut m = set_of(ont, x);
    if deep {
        // (the set that is about to be filtered in place has answered the aggregate queries before)
        let _ = (m.gene_ids(), m.omim_disease_ids(), m.orpha_disease_ids(), m.information_content().is_ok());
    }
    m.remove_modifier();
    if members(&m) != list(&want) {
        return v("HpoSet::remove_modifier", "in-place result differs from the copying counterpart", format!("set {x:?}: {:?} expected {:?}", ids_of(&m), list(&want)));
    }
    if let Some(f) = derived(&m, &want, "remove_modifier") {
        return Some(f);
    }
    // obsolete
    let want = no_obsolete(&xs);
    let d = set.without_obsolete();
    if members(&d) != list(&want) {
        return v("HpoSet::without_obsolete", "does not drop exactly the obsolete members", format!("set {x:?}: {:?} expected {:?}", ids_of(&d), list(&want)));
    }
    if let Some(f) = derived(&d, &want, "without_obsolete") {
        return Some(f);
    }
    let mut m = set_of(ont, x);
    if deep {
        let _ = (m.gene_ids(), m.omim_disease_ids(), m.orpha_disease_ids(), m.information_content().is_ok());
    }
    m.remove_obsolete();
    if members(&m) != list(&want) {
        return v("HpoSet::remove_obsolete", "in-place result differs from the copying counterpart", format!("set {x:?}: {:?} expected {:?}", ids_of(&m), list(&want)));
    }
    if let Some(f) = derived(&m, &want, "remove_obsolete") {
        return Some(f);
    }
    // replacement
    let want = replaced(&xs);
    let repl = set.with_replaced_obsolete();
    if members(&repl) != list(&want) || repl.len() != want.len() {
        return v("HpoSet::with_replaced_obsolete", "does not substitute exactly the members that name a replacement (as a set)", format!("set {x:?}: {:?} (len {}) expected {:?}", ids_of(&repl), repl.len(), list(&want)));
    }
    if let Some(f) = derived(&repl, &want, "with_replaced_obsolete") {
        return Some(f);
    }
    let mut m = set_of(ont, x);
    if deep {
        let _ = (m.gene_ids(), m.omim_disease_ids(), m.orpha_disease_ids(), m.information_content().is_ok());
    }
    m.replace_obsolete();
    if members(&m) != list(&want) || m.len() != want.len() {
        return v("HpoSet::replace_obsolete", "in-place result differs from the copying counterpart", format!("set {x:?}: {:?} expected {:?}", ids_of(&m), list(&want)));
    }
    if let Some(f) = derived(&m, &want, "replace_obsolete") {
        return Some(f);
    }
    // unions of annotations, categories, aggregated information content (when `deep`: once more, now that other
    // sets have been derived from this one)
    check_aggregates(pre, set, &xs, "")
}

/// Which subsets of an n-term ontology get the `deep` treatment of check_set: all of them for n <= 4, otherwise
/// every fourth in the order of the masks, rotating with the ontology (a stale answer of a derived set shows on
/// nearly every subset with a flagged, modifier or annotated member).
fn deep_for(mask: u32, n: usize, rot: usize) -> bool {
    n <= 4 || (mask as usize + rot) % 4 == 0
}

pub fn run(ctx: &mut Ctx) {
    let thorough = ctx.tier.thorough();
    ctx.rule = "case = one ontology of family E (HP:1, HP:118, modifier root HP:5, k free terms with every parent-subset choice, eight obsolete/replacement patterns, records of all kinds) with every subset of its terms as HpoSet; distinct by construction; non-trivial = ontology with an obsolete or replaced term and at least one link among free terms".into();
    ctx.assumptions = vec![
        "replacement ids name existing terms".into(),
        "ontologies are loaded with defaults (from_bytes), so modifier roots and categories are set".into(),
        "the statement speaks of sets: the order in which an HpoSet iterates and which member get(i) hands out are not compared (members as a set, each exactly once; get(0..len) hands out every member once, get(len) nothing)".into(),
        "aggregated information content: the value -ln(|union|/N) is demanded for 0 < |union| <= N; for an empty union 0, +inf or an error is accepted, for an empty kind anything".into(),
        "a decoder may refuse a file in which two terms name each other as replacement (counted)".into(),
    ];
    let kmax = if thorough { 4 } else { 3 };
    let family = family_e(0, kmax, &[200, 7, 300, 150]);
    ctx.space("family-E/all-subsets", &format!("{} ontologies (k <= {kmax} free terms) x all 2^n subsets of their terms; built by from_bytes(encode v3) and, without flags, also by the Builder; for every fourth subset (all, up to four terms) the aggregates are asked before anything is derived and every derived set is observed completely and derived from once more", family.len()));
    for (fi, (f, what)) in family.iter().enumerate() {
        if !ctx.take() {
            continue;
        }
        ctx.state();
        let has_flag = f.terms.iter().any(|t| t.obsolete || t.replacement.is_some());
        if has_flag && f.edges.len() > 3 {
            ctx.nontrivial();
        }
        let r = RefOnt::derive(f);
        let pre = Pre::new(&r);
        let n = f.terms.len();
        let ids: Vec<u32> = f.terms.iter().map(|t| t.id).collect();
        let mut onts: Vec<(Ontology, &str)> = vec![];
        ctx.transitions(f.n_steps());
        match drive::from_bytes(&encode::encode(f, &EncOpts::v(3))) {
            Ok(Ok(o)) => onts.push((o, "from_bytes")),
            // two terms that name each other as replacement are a cycle: a decoder that refuses such a file is
            // within its rights (the quantifier speaks of replaced terms, not of replacement cycles)
            Ok(Err(_)) if what.contains("naming each other as replacement") => {
                ctx.bump("refused: file with two terms naming each other as replacement (family-E/all-subsets)", 1);
                continue;
            }
            other => {
                ctx.violation("Ontology::from_bytes", "rejects a file laid out as documented", json!({"facts": f.to_json(), "observed": format!("{:?}", other.map(|r| r.map(|_| ())))}));
                continue;
            }
        }
        if !has_flag {
            // valid facts (no flags, distinct ids): a Builder that fails or panics on them must not make the
            // Builder half of this space vanish silently
            match drive::build(f, Mode::Defaults) {
                Ok(o) => onts.push((o, "builder")),
                Err(e) => ctx.violation("Builder", "[builder] construction fails on valid facts", json!({"family": what, "facts": f.to_json(), "observed": e})),
            }
        }
        for (ont, path) in &onts {
            for mask in 0..(1u32 << n) {
                let x: Vec<u32> = crate::space::bits(mask, n).iter().map(|i| ids[*i]).collect();
                ctx.exec();
                ctx.validated();
                ctx.transitions(16);
                match guard(|| check_subset(ont, &pre, &x, deep_for(mask, n, fi))) {
                    Ok(None) => {}
                    Ok(Some((site, sig, det))) => ctx.violation(&site, &sig, json!({"family": what, "facts": f.to_json(), "constructor": path, "difference": det})),
                    Err(p) => ctx.violation("HpoSet", "panics", json!({"family": what, "facts": f.to_json(), "set": x, "observed": p})),
                }
            }
        }
        ctx.outcome(crate::ctx::fnv_str(what) % 65536);
        ctx.sample(|| json!({"family": what, "facts": f.to_json(), "subsets": 1u32 << n}));
    }
    // ---- record counts that differ between the kinds in every direction: the unions of one kind must not
    // depend on how many records another kind has
    {
        let counts: Vec<[usize; 3]> = vec![[1, 2, 4], [1, 4, 2], [2, 1, 4], [2, 4, 1], [4, 1, 2], [4, 2, 1], [0, 3, 1], [3, 0, 2], [2, 4, 0], [5, 5, 5]];
        ctx.space("record-count-asymmetry/all-subsets", &format!("{} ontologies: HP:1, HP:118 and five children of HP:118; (genes, OMIM, ORPHA) record counts {counts:?}, record j of a kind on the j-th child, the first record of every kind additionally on the last child; record ids 5, 65 541, 16 777 221, 4 294 967 290, 131 077 (+ 0 / 1 / 2 per kind: equal modulo 2^16); all 2^7 subsets, Builder and from_bytes, derived sets observed completely", counts.len()));
        for c in &counts {
            if !ctx.take() {
                continue;
            }
            ctx.state();
            ctx.nontrivial();
            let mut f = Facts::default();
            f.version = (2024, 2, 29);
            f.terms = vec![Facts::term(1, "All"), Facts::term(118, "Phenotypic abnormality")];
            f.edges = vec![(118, 1)];
            let kids = [2u32, 3, 4, 6, 7];
            for k in kids {
                f.terms.push(Facts::term(k, &format!("Child {k}")));
                f.edges.push((k, 118));
            }
            // record ids that differ only above bit 16 / bit 24 and one near u32::MAX (a union kept in a bitmap or
            // a narrowed key would merge them); the kinds use neighbouring ids
            let wide: [u32; 5] = [5, 65_541, 16_777_221, 4_294_967_290, 131_077];
            for (ki, kind) in [Kind::Gene, Kind::Omim, Kind::Orpha].into_iter().enumerate() {
                for j in 0..c[ki] {
                    f.anns.push(Facts::ann(kind, wide[j] + ki as u32, &format!("{}{j}", kind.name()), Some(kids[j % 5])));
                }
                if c[ki] > 0 {
                    f.anns.push(Facts::ann(kind, wide[0] + ki as u32, &format!("{}0", kind.name()), Some(kids[4])));
                }
            }
            let r = RefOnt::derive(&f);
            let pre = Pre::new(&r);
            let n = f.terms.len();
            let ids: Vec<u32> = f.terms.iter().map(|t| t.id).collect();
            ctx.transitions(2 * f.n_steps());
            let mut onts: Vec<(Ontology, &str)> = vec![];
            match drive::from_bytes(&encode::encode(&f, &EncOpts::v(3))) {
                Ok(Ok(o)) => onts.push((o, "from_bytes")),
                other => {
                    ctx.violation("Ontology::from_bytes", "rejects a file laid out as documented", json!({"facts": f.to_json(), "observed": format!("{:?}", other.map(|r| r.map(|_| ())))}));
                    continue;
                }
            }
            match drive::build(&f, Mode::Defaults) {
                Ok(o) => onts.push((o, "builder")),
                Err(e) => ctx.violation("Builder", "[builder] construction fails on valid facts", json!({"record_counts (gene, omim, orpha)": c, "facts": f.to_json(), "observed": e})),
            }
            for (ont, path) in &onts {
                for mask in 0..(1u32 << n) {
                    let x: Vec<u32> = crate::space::bits(mask, n).iter().map(|i| ids[*i]).collect();
                    ctx.exec();
                    ctx.validated();
                    ctx.transitions(16);
                    match guard(|| check_subset(ont, &pre, &x, true)) {
                        Ok(None) => {}
                        Ok(Some((site, sig, det))) => ctx.violation(&site, &sig, json!({"record_counts (gene, omim, orpha)": c, "facts": f.to_json(), "constructor": path, "difference": det})),
                        Err(p) => ctx.violation("HpoSet", "panics", json!({"record_counts": c, "facts": f.to_json(), "set": x, "observed": p})),
                    }
                }
            }
            ctx.sample(|| json!({"record_counts (gene, omim, orpha)": c, "subsets": 1u32 << n}));
        }
    }
    // ---- operation sequences on one live HpoSet: queries interleaved with in-place mutations and Extend
    {
        let fam = family_e(2, 2, &[200, 7]);
        let depth = if thorough { 4 } else { 3 };
        ctx.space("histories/live-set", &format!("{} ontologies (k = 2) x 3 start sets x all sequences of length <= {depth} over {{extend(t) for each term, remove_obsolete, remove_modifier, replace_obsolete}}; after every step the whole observation of the live set (incl. information_content, gene/disease unions, categories) is compared with the model set", fam.len()));
        for (f, what) in &fam {
            if !ctx.take() {
                continue;
            }
            ctx.state();
            ctx.nontrivial();
            let r = RefOnt::derive(f);
            let pre = Pre::new(&r);
            let ids: Vec<u32> = f.terms.iter().map(|t| t.id).collect();
            let n = ids.len();
            let ont = match drive::from_bytes(&encode::encode(f, &EncOpts::v(3))) {
                Ok(Ok(o)) => o,
                // (the same refusal that family-E/all-subsets tolerates and counts; anything else - another Err,
                // a panic - is a failure on a file laid out as documented and must not drop all sequences silently)
                Ok(Err(_)) if what.contains("naming each other as replacement") => {
                    ctx.bump("refused: file with two terms naming each other as replacement (histories/live-set)", 1);
                    continue;
                }
                other => {
                    ctx.violation("Ontology::from_bytes", "rejects a file laid out as documented", json!({"family": what, "facts": f.to_json(), "observed": format!("{:?}", other.map(|r| r.map(|_| ())))}));
                    continue;
                }
            };
            // ops: 0..n = extend(ids[i]); n = remove_obsolete; n+1 = remove_modifier; n+2 = replace_obsolete;
            // n+3 = extend(all terms, descending); n+4 = extend([t2, t2, t0]) (a repeat inside one call, one of them
            // possibly a member); n+5 = extend(the set's own members, collected first)
            let nops = n + 6;
            let starts: Vec<Vec<u32>> = vec![vec![], vec![ids[3]], ids.clone()];
            let mut seqs: Vec<Vec<usize>> = vec![vec![]];
            let mut frontier: Vec<Vec<usize>> = vec![vec![]];
            for _ in 0..depth {
                let mut next = vec![];
                for sq in &frontier {
                    for op in 0..nops {
                        let mut t = sq.clone();
                        t.push(op);
                        next.push(t);
                    }
                }
                seqs.extend(next.iter().cloned());
                frontier = next;
            }
            for start in &starts {
                for sq in &seqs {
                    ctx.exec();
                    ctx.validated();
                    ctx.transitions(sq.len() as u64 + 1);
                    let res = guard(|| -> V {
                        let mut set = set_of(&ont, start);
                        let mut model: BTreeSet<u32> = start.iter().copied().collect();
                        let snapshot = |m: &BTreeSet<u32>| -> Vec<u32> { m.iter().copied().collect() };
                        if let Some(x) = check_set(&ont, &pre, &set, &snapshot(&model), false) {
                            return Some(x);
                        }
                        for (step, op) in sq.iter().enumerate() {
                            if *op < n {
                                set.extend(std::iter::once(ont.hpo(ids[*op]).unwrap()));
                                model.insert(ids[*op]);
                            } else if *op == n {
                                set.remove_obsolete();
                                model.retain(|t| !r.terms[t].obsolete);
                            } else if *op == n + 1 {
                                set.remove_modifier();
                                model.retain(|t| !r.is_modifier(*t, Mode::Defaults));
                            } else if *op == n + 2 {
                                set.replace_obsolete();
                                model = model.iter().map(|t| r.terms[t].replacement.unwrap_or(*t)).collect();
                            } else if *op == n + 3 {
                                set.extend(ids.iter().rev().map(|i| ont.hpo(*i).unwrap()));
                                model.extend(ids.iter().copied());
                            } else if *op == n + 4 {
                                set.extend([ids[2], ids[2], ids[0]].iter().map(|i| ont.hpo(*i).unwrap()));
                                model.extend([ids[2], ids[0]]);
                            } else {
                                let own: Vec<u32> = ids_of(&set);
                                set.extend(own.iter().map(|i| ont.hpo(*i).unwrap()));
                            }
                            if let Some((site, sig, det)) = check_set(&ont, &pre, &set, &snapshot(&model), false) {
                                return Some((site, format!("[live set after a sequence of operations] {sig}"), format!("start {start:?}, operations {:?} (step {step}): {det}", sq)));
                            }
                        }
                        None
                    });
                    match res {
                        Ok(None) => {}
                        Ok(Some((site, sig, det))) => ctx.violation(&site, &sig, json!({"family": what, "facts": f.to_json(), "operations_legend": format!("0..{n} = extend(term i of {ids:?}); {n} = remove_obsolete; {} = remove_modifier; {} = replace_obsolete; {} = extend(all terms descending); {} = extend([t2, t2, t0]); {} = extend(own members)", n + 1, n + 2, n + 3, n + 4, n + 5), "difference": det})),
                        Err(p) => ctx.violation("HpoSet", "[live set] panics", json!({"family": what, "facts": f.to_json(), "start": start, "operations": sq, "observed": p})),
                    }
                }
            }
            ctx.sample(|| json!({"family": what, "start_sets": starts, "sequences": seqs.len()}));
        }
    }

    // ---- structured large graphs: sets with more than 30 members / members with more than 30 ancestors
    {
        let family = crate::props::common::large_family();
        ctx.space("large-structured/structured-subsets", &format!("{} large shapes (loaded with defaults; every other shape below the modifier root HP:119 instead of HP:118; an obsolete+replaced last term; records on several terms) x structured subsets: every prefix, every suffix, every k-th term (k=2,3,7), all pairs (i, last), the full set; and one live set per shape that starts with up to 29 terms, is extended one term at a time to 33 and more (incl. the obsolete + replaced term and the term naming it), then replace_obsolete, remove_obsolete, remove_modifier, observed completely after every step", family.len()));
        for (base, what) in &family {
            if !ctx.take() {
                continue;
            }
            ctx.state();
            ctx.nontrivial();
            let mut f = base.clone();
            // every other shape hangs below a MODIFIER root instead of HP:118: node 1 becomes HP:119 (a child of
            // HP:1 other than 118) and a childless HP:118 is added - so that positive modifier classification is
            // exercised on terms with > 30 / > 255 ancestors as well
            let below_modifier = ctx.spaces.last().map(|s| s.1.cases % 2 == 0).unwrap_or(false);
            if below_modifier {
                for t in f.terms.iter_mut() {
                    if t.id == 118 {
                        t.id = 119;
                    }
                }
                for e in f.edges.iter_mut() {
                    if e.0 == 118 {
                        e.0 = 119;
                    }
                    if e.1 == 118 {
                        e.1 = 119;
                    }
                }
                f.terms.insert(1, Facts::term(118, "Phenotypic abnormality"));
                f.edges.push((118, 1));
            }
            let ids: Vec<u32> = f.terms.iter().map(|t| t.id).collect();
            let n = ids.len();
            f.terms[n - 1].obsolete = true;
            f.terms[n - 1].replacement = Some(ids[n / 2]);
            f.terms[n - 2].replacement = Some(ids[n - 1]);
            f.anns.push(Facts::ann(crate::model::Kind::Gene, 11, "GENE1", Some(ids[n - 1])));
            f.anns.push(Facts::ann(crate::model::Kind::Gene, 33, "GENE3", None));
            for i in (0..n).step_by(5) {
                f.anns.push(Facts::ann(crate::model::Kind::Gene, 22, "GENE2", Some(ids[i])));
                f.anns.push(Facts::ann(crate::model::Kind::Omim, 600_000 + (i as u32 % 3), &format!("Disease {}", i % 3), Some(ids[i])));
            }
            f.anns.push(Facts::ann(crate::model::Kind::Orpha, 77, "Orpha one", Some(ids[n / 3])));
            f.anns.push(Facts::ann(crate::model::Kind::Orpha, 78, "Orpha two, bare", None));
            let r = RefOnt::derive(&f);
            let pre = Pre::new(&r);
            ctx.transitions(f.n_steps());
            let ont = match drive::from_bytes(&encode::encode(&f, &EncOpts::v(3))) {
                Ok(Ok(o)) => o,
                other => {
                    ctx.violation("Ontology::from_bytes", "rejects a file laid out as documented", json!({"shape": what, "observed": format!("{:?}", other.map(|r| r.map(|_| ())))}));
                    continue;
                }
            };
            let mut sorted = ids.clone();
            sorted.sort_unstable();
            let mut subsets: Vec<Vec<u32>> = vec![sorted.clone()];
            for k in 1..n {
                subsets.push(sorted[..k].to_vec());
                subsets.push(sorted[k..].to_vec());
            }
            for k in [2usize, 3, 7] {
                subsets.push(sorted.iter().copied().step_by(k).collect());
                subsets.push(sorted.iter().copied().skip(1).step_by(k).collect());
            }
            for i in 0..n {
                subsets.push(vec![ids[i], ids[n - 1]]);
            }
            for (si, x) in subsets.iter().enumerate() {
                ctx.exec();
                ctx.validated();
                ctx.transitions(16);
                // (the full set and every 16th structured subset with the derived sets observed completely)
                match guard(|| check_subset(&ont, &pre, x, si % 16 == 0)) {
                    Ok(None) => {}
                    Ok(Some((site, sig, det))) => ctx.violation(&site, &format!("[large shape] {sig}"), json!({"shape": what, "difference": det})),
                    Err(p) => ctx.violation("HpoSet", "[large shape] panics", json!({"shape": what, "set": x, "observed": p})),
                }
            }
            // one live set that grows across the inline capacity of its id group (30) and is then filtered in place:
            // start = up to 29 terms, extended one term at a time by four more, by the term that names the obsolete
            // term as its replacement and by the obsolete, replaced term itself (its replacement is the middle term:
            // a collision when that is a member), then replace_obsolete, remove_obsolete, remove_modifier; the whole
            // observation (derived sets included) after every step
            {
                let special = [ids[n - 2], ids[n - 1]];
                let mut order: Vec<u32> = sorted.iter().copied().filter(|t| !special.contains(t)).collect();
                let start_len = order.len().saturating_sub(4).min(29);
                let mut grow: Vec<u32> = order.split_off(start_len);
                grow.truncate(4);
                grow.extend(special);
                let steps = grow.len() + 3;
                ctx.execs(steps as u64 + 1);
                ctx.validateds(steps as u64 + 1);
                ctx.transitions(steps as u64);
                let res = guard(|| -> V {
                    let mut set = set_of(&ont, &order);
                    let mut model: BTreeSet<u32> = order.iter().copied().collect();
                    let snapshot = |m: &BTreeSet<u32>| -> Vec<u32> { m.iter().copied().collect() };
                    if let Some(f) = check_set(&ont, &pre, &set, &snapshot(&model), true) {
                        return Some(f);
                    }
                    for step in 0..steps {
                        let what = if step < grow.len() {
                            set.extend(std::iter::once(ont.hpo(grow[step]).unwrap()));
                            model.insert(grow[step]);
                            format!("extend({})", grow[step])
                        } else if step == grow.len() {
                            set.replace_obsolete();
                            model = model.iter().map(|t| r.terms[t].replacement.unwrap_or(*t)).collect();
                            "replace_obsolete".to_string()
                        } else if step == grow.len() + 1 {
                            set.remove_obsolete();
                            model.retain(|t| !r.terms[t].obsolete);
                            "remove_obsolete".to_string()
                        } else {
                            set.remove_modifier();
                            model.retain(|t| !pre.is_mod[t]);
                            "remove_modifier".to_string()
                        };
                        if let Some((site, sig, det)) = check_set(&ont, &pre, &set, &snapshot(&model), true) {
                            return Some((site, format!("[live set growing across the inline capacity] {sig}"), format!("start = {} terms, then extend one by one {grow:?}, replace_obsolete, remove_obsolete, remove_modifier; after step {step} ({what}): {det}", order.len())));
                        }
                    }
                    None
                });
                match res {
                    Ok(None) => {}
                    Ok(Some((site, sig, det))) => ctx.violation(&site, &format!("[large shape] {sig}"), json!({"shape": what, "difference": det})),
                    Err(p) => ctx.violation("HpoSet", "[large shape] [live set growing across the inline capacity] panics", json!({"shape": what, "observed": p})),
                }
            }
            ctx.sample(|| json!({"shape": what, "n_terms": n, "subsets": subsets.len(), "below_a_modifier_root": below_modifier}));
        }
    }

    // ---- unions of many records: 60 genes, 25 OMIM and 25 ORPHA diseases spread over a chain of 8 terms and two
    // side terms (record j on term j mod 10), every subset of the 10 terms
    {
        ctx.space("many-records/all-subsets", "HP:1, HP:118, a chain of 8 terms below HP:118 and two further children of HP:118; 60 genes / 25 OMIM / 25 ORPHA records, record j on term (j mod 10) and every 7th also on term (3j mod 10); all 2^10 subsets of the ten terms; decoder and Builder");
        if ctx.take() {
            ctx.state();
            ctx.nontrivial();
            let mut f = Facts::default();
            f.version = (2024, 2, 29);
            f.terms = vec![Facts::term(1, "All"), Facts::term(118, "Phenotypic abnormality")];
            f.edges = vec![(118, 1)];
            let ten: Vec<u32> = vec![210, 220, 230, 240, 250, 260, 270, 280, 300, 310];
            for (k, t) in ten.iter().enumerate() {
                f.terms.push(Facts::term(*t, &format!("M{k}")));
                f.edges.push((*t, if k == 0 || k >= 8 { 118 } else { ten[k - 1] }));
            }
            for (kind, count) in [(Kind::Gene, 60u32), (Kind::Omim, 25), (Kind::Orpha, 25)] {
                for j in 0..count {
                    f.anns.push(Facts::ann(kind, 1000 + j, &format!("R{j}"), Some(ten[(j % 10) as usize])));
                    if j % 7 == 0 {
                        f.anns.push(Facts::ann(kind, 1000 + j, &format!("R{j}"), Some(ten[((3 * j) % 10) as usize])));
                    }
                }
            }
            let r = RefOnt::derive(&f);
            let pre = Pre::new(&r);
            ctx.transitions(2 * f.n_steps());
            let mut onts: Vec<(Ontology, &str)> = vec![];
            if let Ok(Ok(o)) = drive::from_bytes(&encode::encode(&f, &EncOpts::v(3))) {
                onts.push((o, "from_bytes"));
            }
            if let Ok(o) = drive::build(&f, Mode::Defaults) {
                onts.push((o, "builder"));
            }
            if onts.len() != 2 {
                ctx.violation("Ontology::from_bytes", "construction fails on valid facts", json!({"layout": "many records"}));
            }
            for (ont, path) in &onts {
                for mask in 0..(1u32 << 10) {
                    let x: Vec<u32> = crate::space::bits(mask, 10).iter().map(|i| ten[*i]).collect();
                    ctx.exec();
                    ctx.validated();
                    ctx.transitions(16);
                    match guard(|| check_subset(ont, &pre, &x, deep_for(mask, 10, 0))) {
                        Ok(None) => {}
                        Ok(Some((site, sig, det))) => {
                            ctx.violation(&site, &format!("[many records] {sig}"), json!({"constructor": path, "set": x, "difference": det}));
                            break;
                        }
                        Err(p) => {
                            ctx.violation("HpoSet", "[many records] panics", json!({"set": x, "observed": p}));
                            break;
                        }
                    }
                }
            }
            ctx.sample(|| json!({"records": [60, 25, 25], "subsets": 1024}));
        }
    }
    // ---- custom modifier roots and categories (Ontology::modifier_mut / categories_mut are public)
    let small = family_e(1, 2, &[200, 7]);
    ctx.space("custom-modifier-roots-and-categories", &format!("{} ontologies (k <= 2, no flags) built ONCE with build_minimal; no term, every single term and every pair of terms in turn installed as custom modifier roots through modifier_mut() (lists re-edited after they were queried), categories set to one of two unrelated pairs through categories_mut(); every subset as HpoSet: without_modifier / remove_modifier / categories", small.iter().filter(|(f, _)| f.terms.iter().all(|t| !t.obsolete && t.replacement.is_none())).count()));
    for (f, what) in &small {
        if f.terms.iter().any(|t| t.obsolete || t.replacement.is_some()) {
            continue;
        }
        if !ctx.take() {
            continue;
        }
        ctx.state();
        ctx.nontrivial();
        let r = RefOnt::derive(f);
        let ids: Vec<u32> = f.terms.iter().map(|t| t.id).collect();
        let n = ids.len();
        // (first no root at all: an empty list means "nothing is a modifier", not "use the default roots")
        let mut root_sets: Vec<Vec<u32>> = std::iter::once(vec![]).chain(ids.iter().map(|i| vec![*i])).collect();
        for a in 0..n {
            for b in a + 1..n {
                root_sets.push(vec![ids[a], ids[b]]);
            }
        }
        // ONE ontology per fact set: the lists are edited again after they have been queried (a classification
        // remembered per term would go stale); the category pair alternates as well
        let mut ont = match drive::build(f, Mode::Minimal) {
            Ok(o) => o,
            Err(e) => {
                // the only driver of modifier_mut() / categories_mut(): a failing Builder must not empty the space
                ctx.violation("Builder", "[builder] construction fails on valid facts", json!({"family": what, "facts": f.to_json(), "mode": "build_minimal", "observed": e}));
                continue;
            }
        };
        for (ri, roots) in root_sets.iter().enumerate() {
            let cats: Vec<u32> = if ri % 2 == 0 { vec![ids[n - 1], ids[1]] } else { vec![ids[0], ids[n - 2]] };
            ctx.transitions(f.n_steps() + 2);
            *ont.modifier_mut() = HpoGroup::new();
            *ont.categories_mut() = HpoGroup::new();
            for x in roots {
                ont.modifier_mut().insert(*x);
            }
            for c in &cats {
                ont.categories_mut().insert(*c);
            }
            for mask in 0..(1u32 << n) {
                let x: Vec<u32> = crate::space::bits(mask, n).iter().map(|i| ids[*i]).collect();
                ctx.exec();
                ctx.validated();
                let res = guard(|| -> V {
                    let set = set_of(&ont, &x);
                    let mut want: Vec<u32> = x.iter().copied().filter(|t| !r.anc_incl(*t).iter().any(|a| roots.contains(a))).collect();
                    want.sort_unstable();
                    let got = members(&set.without_modifier());
                    if got != want {
                        return Some(("HpoSet::without_modifier".into(), "[custom modifier roots] does not drop exactly the members that are or descend from a modifier root".into(), format!("roots {roots:?} set {x:?}: {got:?} expected {want:?}")));
                    }
                    let mut m = set_of(&ont, &x);
                    m.remove_modifier();
                    if members(&m) != want {
                        return Some(("HpoSet::remove_modifier".into(), "[custom modifier roots] in-place result differs from the copying counterpart".into(), format!("roots {roots:?} set {x:?}: {:?} expected {want:?}", ids_of(&m))));
                    }
                    for t in &x {
                        let tm = ont.hpo(*t).unwrap().is_modifier();
                        let wm = r.anc_incl(*t).iter().any(|a| roots.contains(a));
                        if tm != wm {
                            return Some(("HpoTerm::is_modifier".into(), "[custom modifier roots] wrong modifier classification".into(), format!("roots {roots:?} term {t}: {tm} expected {wm}")));
                        }
                    }
                    let mut wc: BTreeMap<u32, usize> = BTreeMap::new();
                    for t in &x {
                        for c in r.anc_incl(*t).iter().filter(|a| cats.contains(a)) {
                            *wc.entry(*c).or_insert(0) += 1;
                        }
                    }
                    let gc: BTreeMap<u32, usize> = set.categories().iter().map(|(k, v)| (k.as_u32(), *v)).collect();
                    if gc != wc {
                        return Some(("HpoSet::categories".into(), "[custom categories] does not count the members per category".into(), format!("categories {cats:?} set {x:?}: {gc:?} expected {wc:?}")));
                    }
                    None
                });
                match res {
                    Ok(None) => {}
                    Ok(Some((site, sig, det))) => ctx.violation(&site, &sig, json!({"family": what, "facts": f.to_json(), "difference": det})),
                    Err(p) => ctx.violation("HpoSet", "panics", json!({"family": what, "facts": f.to_json(), "set": x, "observed": p})),
                }
            }
        }
        ctx.sample(|| json!({"family": what, "custom_root_sets": root_sets.len(), "subsets": 1u32 << n}));
    }
    let _ = Facts::default;
    // ---- sequences of ontologies built one after the other at the same address: every subset of both
    super::common::ontology_sequences(ctx, "sets", Mode::Defaults, &mut |ont, r| {
        let ids: Vec<u32> = r.terms.keys().copied().collect();
        let pre = Pre::new(r);
        for mask in 0..(1u32 << ids.len()) {
            let x: Vec<u32> = crate::space::bits(mask, ids.len()).iter().map(|i| ids[*i]).collect();
            if let Some(v) = check_subset(ont, &pre, &x, mask % 4 == 3) {
                return Some(v);
            }
        }
        None
    });
    let n = IC_ERR_TOLERATED.swap(0, std::sync::atomic::Ordering::Relaxed);
    if n > 0 {
        ctx.bump("refused: information_content returns Err for a set with an empty union or an empty kind", n);
    }
}
