//! C13 - HpoSet filters, replacements and aggregates are exact.

use super::common::family_e;
use crate::ctx::{guard, Ctx};
use crate::drive;
use crate::encode::{self, EncOpts};
use crate::model::{ic_value, Facts, Kind, Mode, RefOnt};
use hpo::annotations::AnnotationId;
use hpo::term::HpoGroup;
use hpo::{HpoSet, Ontology};
use serde_json::json;
use std::collections::{BTreeMap, BTreeSet};

type V = Option<(String, String, String)>;

fn set_of<'a>(ont: &'a Ontology, ids: &[u32]) -> HpoSet<'a> {
    let mut g = HpoGroup::new();
    for i in ids {
        g.insert(*i);
    }
    HpoSet::new(ont, g)
}

fn ids_of(s: &HpoSet) -> Vec<u32> {
    s.iter().map(|t| t.id().as_u32()).collect()
}

fn check_subset(ont: &Ontology, r: &RefOnt, x: &[u32]) -> V {
    let set = set_of(ont, x);
    check_set(ont, r, &set, x)
}

/// all observations of one (possibly long-lived) HpoSet against the model set `x`
fn check_set(ont: &Ontology, r: &RefOnt, set: &HpoSet, x: &[u32]) -> V {
    let v = |site: &str, sig: &str, det: String| Some((site.to_string(), sig.to_string(), det));
    let xs: BTreeSet<u32> = x.iter().copied().collect();
    // len / is_empty / contains / iter / get
    if set.len() != xs.len() || set.is_empty() != xs.is_empty() {
        return v("HpoSet::len", "len/is_empty disagree with the members", format!("set {x:?}: len {}", set.len()));
    }
    let it = ids_of(&set);
    if it != xs.iter().copied().collect::<Vec<_>>() {
        return v("HpoSet::iter", "iteration does not yield the members in ascending order", format!("set {x:?}: {it:?}"));
    }
    for t in r.terms.keys() {
        if set.contains(&(*t).into()) != xs.contains(t) {
            return v("HpoSet::contains", "membership differs from the set", format!("set {x:?}: contains({t})"));
        }
    }
    for i in 0..=xs.len() {
        let got = set.get(i).map(|t| t.id().as_u32());
        let want = xs.iter().nth(i).copied();
        if got != want {
            return v("HpoSet::get", "get(i) is not the i-th member", format!("set {x:?}: get({i}) = {got:?} expected {want:?}"));
        }
    }
    // child_nodes
    let want: Vec<u32> = xs.iter().copied().filter(|t| !xs.iter().any(|o| r.terms[o].ancestors.contains(t))).collect();
    let got = ids_of(&set.child_nodes());
    if got != want {
        return v("HpoSet::child_nodes", "does not keep exactly the members without a descendant in the set", format!("set {x:?}: {got:?} expected {want:?}"));
    }
    // modifier
    let want: Vec<u32> = xs.iter().copied().filter(|t| !r.is_modifier(*t, Mode::Defaults)).collect();
    let got = ids_of(&set.without_modifier());
    if got != want {
        return v("HpoSet::without_modifier", "does not drop exactly the members that are or descend from a modifier root", format!("set {x:?}: {got:?} expected {want:?}"));
    }
    let mut m = set_of(ont, x);
    m.remove_modifier();
    if ids_of(&m) != want {
        return v("HpoSet::remove_modifier", "in-place result differs from the copying counterpart", format!("set {x:?}: {:?} expected {want:?}", ids_of(&m)));
    }
    // obsolete
    let want: Vec<u32> = xs.iter().copied().filter(|t| !r.terms[t].obsolete).collect();
    let got = ids_of(&set.without_obsolete());
    if got != want {
        return v("HpoSet::without_obsolete", "does not drop exactly the obsolete members", format!("set {x:?}: {got:?} expected {want:?}"));
    }
    let mut m = set_of(ont, x);
    m.remove_obsolete();
    if ids_of(&m) != want {
        return v("HpoSet::remove_obsolete", "in-place result differs from the copying counterpart", format!("set {x:?}: {:?} expected {want:?}", ids_of(&m)));
    }
    // replacement
    let want: Vec<u32> = xs.iter().map(|t| r.terms[t].replacement.unwrap_or(*t)).collect::<BTreeSet<u32>>().into_iter().collect();
    let repl = set.with_replaced_obsolete();
    let got = ids_of(&repl);
    if got != want || repl.len() != want.len() {
        return v("HpoSet::with_replaced_obsolete", "does not substitute exactly the members that name a replacement (as a set)", format!("set {x:?}: {got:?} (len {}) expected {want:?}", repl.len()));
    }
    let mut m = set_of(ont, x);
    m.replace_obsolete();
    if ids_of(&m) != want || m.len() != want.len() {
        return v("HpoSet::replace_obsolete", "in-place result differs from the copying counterpart", format!("set {x:?}: {:?} expected {want:?}", ids_of(&m)));
    }
    // unions of annotations
    let mut unions: [BTreeSet<u32>; 3] = Default::default();
    for t in &xs {
        for k in 0..3 {
            unions[k].extend(r.terms[t].recs[k].iter().copied());
        }
    }
    let g: BTreeSet<u32> = set.gene_ids().iter().map(|i| i.as_u32()).collect();
    let o: BTreeSet<u32> = set.omim_disease_ids().iter().map(|i| i.as_u32()).collect();
    let p: BTreeSet<u32> = set.orpha_disease_ids().iter().map(|i| i.as_u32()).collect();
    if g != unions[0] {
        return v("HpoSet::gene_ids", "not the union over the members", format!("set {x:?}: {g:?} expected {:?}", unions[0]));
    }
    if o != unions[1] {
        return v("HpoSet::omim_disease_ids", "not the union over the members", format!("set {x:?}: {o:?} expected {:?}", unions[1]));
    }
    if p != unions[2] {
        return v("HpoSet::orpha_disease_ids", "not the union over the members", format!("set {x:?}: {p:?} expected {:?}", unions[2]));
    }
    // categories
    let mut want: BTreeMap<u32, usize> = BTreeMap::new();
    for t in &xs {
        for c in r.term_categories(*t, Mode::Defaults) {
            *want.entry(c).or_insert(0) += 1;
        }
    }
    let got: BTreeMap<u32, usize> = set.categories().iter().map(|(k, v)| (k.as_u32(), *v)).collect();
    if got != want {
        return v("HpoSet::categories", "does not count the members per category", format!("set {x:?}: {got:?} expected {want:?}"));
    }
    // aggregated information content
    match set.information_content() {
        Ok(ic) => {
            let wg = ic_value(r.recs[0].len(), unions[0].len());
            let wo = ic_value(r.recs[1].len(), unions[1].len());
            if !crate::obs::close32(ic.gene(), wg) || !crate::obs::close32(ic.omim_disease(), wo) {
                return v("HpoSet::information_content", "not -ln(|union|/N)", format!("set {x:?}: gene {} expected {wg}, omim {} expected {wo}", ic.gene(), ic.omim_disease()));
            }
        }
        Err(e) => return v("HpoSet::information_content", "returns an error", format!("set {x:?}: {e}")),
    }
    None
}

pub fn run(ctx: &mut Ctx) {
    let thorough = ctx.tier.thorough();
    ctx.rule = "case = one ontology of family E (HP:1, HP:118, modifier root HP:5, k free terms with every parent-subset choice, eight obsolete/replacement patterns, records of all kinds) with every subset of its terms as HpoSet; distinct by construction; non-trivial = ontology with an obsolete or replaced term and at least one link among free terms".into();
    ctx.assumptions = vec!["replacement ids name existing terms".into(), "ontologies are loaded with defaults (from_bytes), so modifier roots and categories are set".into()];
    let kmax = if thorough { 4 } else { 3 };
    let family = family_e(0, kmax, &[200, 7, 300, 150]);
    ctx.space("family-E/all-subsets", &format!("{} ontologies (k <= {kmax} free terms) x all 2^n subsets of their terms; built by from_bytes(encode v3) and, without flags, also by the Builder", family.len()));
    for (f, what) in &family {
        if !ctx.take() {
            continue;
        }
        ctx.state();
        let has_flag = f.terms.iter().any(|t| t.obsolete || t.replacement.is_some());
        if has_flag && f.edges.len() > 3 {
            ctx.nontrivial();
        }
        let r = RefOnt::derive(f);
        let n = f.terms.len();
        let ids: Vec<u32> = f.terms.iter().map(|t| t.id).collect();
        let mut onts: Vec<(Ontology, &str)> = vec![];
        ctx.transitions(f.n_steps());
        match drive::from_bytes(&encode::encode(f, &EncOpts::v(3))) {
            Ok(Ok(o)) => onts.push((o, "from_bytes")),
            other => {
                ctx.violation("Ontology::from_bytes", "rejects a file laid out as documented", json!({"facts": f.to_json(), "observed": format!("{:?}", other.map(|r| r.map(|_| ())))}));
                continue;
            }
        }
        if !has_flag {
            if let Ok(o) = drive::build(f, Mode::Defaults) {
                onts.push((o, "builder"));
            }
        }
        for (ont, path) in &onts {
            for mask in 0..(1u32 << n) {
                let x: Vec<u32> = crate::space::bits(mask, n).iter().map(|i| ids[*i]).collect();
                ctx.exec();
                ctx.validated();
                ctx.transitions(16);
                match guard(|| check_subset(ont, &r, &x)) {
                    Ok(None) => {}
                    Ok(Some((site, sig, det))) => ctx.violation(&site, &sig, json!({"family": what, "facts": f.to_json(), "constructor": path, "difference": det})),
                    Err(p) => ctx.violation("HpoSet", "panics", json!({"family": what, "facts": f.to_json(), "set": x, "observed": p})),
                }
            }
        }
        ctx.outcome(crate::ctx::fnv_str(what) % 65536);
        ctx.sample(|| json!({"family": what, "facts": f.to_json(), "subsets": 1u32 << n}));
    }
    // ---- record counts that differ between the kinds in every direction: the unions of one kind must not
    // depend on how many records another kind has
    {
        let counts: Vec<[usize; 3]> = vec![[1, 2, 4], [1, 4, 2], [2, 1, 4], [2, 4, 1], [4, 1, 2], [4, 2, 1], [0, 3, 1], [3, 0, 2], [2, 4, 0], [5, 5, 5]];
        ctx.space("record-count-asymmetry/all-subsets", &format!("{} ontologies: HP:1, HP:118 and five children of HP:118; (genes, OMIM, ORPHA) record counts {counts:?}, record j of a kind on the j-th child, the first record of every kind additionally on the last child; all 2^7 subsets, Builder and from_bytes", counts.len()));
        for c in &counts {
            if !ctx.take() {
                continue;
            }
            ctx.state();
            ctx.nontrivial();
            let mut f = Facts::default();
            f.version = (2024, 2, 29);
            f.terms = vec![Facts::term(1, "All"), Facts::term(118, "Phenotypic abnormality")];
            f.edges = vec![(118, 1)];
            let kids = [2u32, 3, 4, 6, 7];
            for k in kids {
                f.terms.push(Facts::term(k, &format!("Child {k}")));
                f.edges.push((k, 118));
            }
            for (ki, kind) in [Kind::Gene, Kind::Omim, Kind::Orpha].into_iter().enumerate() {
                for j in 0..c[ki] {
                    f.anns.push(Facts::ann(kind, 100 * (ki as u32 + 1) + j as u32, &format!("{}{j}", kind.name()), Some(kids[j % 5])));
                }
                if c[ki] > 0 {
                    f.anns.push(Facts::ann(kind, 100 * (ki as u32 + 1), &format!("{}0", kind.name()), Some(kids[4])));
                }
            }
            let r = RefOnt::derive(&f);
            let n = f.terms.len();
            let ids: Vec<u32> = f.terms.iter().map(|t| t.id).collect();
            ctx.transitions(2 * f.n_steps());
            let mut onts: Vec<(Ontology, &str)> = vec![];
            match drive::from_bytes(&encode::encode(&f, &EncOpts::v(3))) {
                Ok(Ok(o)) => onts.push((o, "from_bytes")),
                other => {
                    ctx.violation("Ontology::from_bytes", "rejects a file laid out as documented", json!({"facts": f.to_json(), "observed": format!("{:?}", other.map(|r| r.map(|_| ())))}));
                    continue;
                }
            }
            if let Ok(o) = drive::build(&f, Mode::Defaults) {
                onts.push((o, "builder"));
            }
            for (ont, path) in &onts {
                for mask in 0..(1u32 << n) {
                    let x: Vec<u32> = crate::space::bits(mask, n).iter().map(|i| ids[*i]).collect();
                    ctx.exec();
                    ctx.validated();
                    ctx.transitions(16);
                    match guard(|| check_subset(ont, &r, &x)) {
                        Ok(None) => {}
                        Ok(Some((site, sig, det))) => ctx.violation(&site, &sig, json!({"record_counts (gene, omim, orpha)": c, "facts": f.to_json(), "constructor": path, "difference": det})),
                        Err(p) => ctx.violation("HpoSet", "panics", json!({"record_counts": c, "facts": f.to_json(), "set": x, "observed": p})),
                    }
                }
            }
            ctx.sample(|| json!({"record_counts (gene, omim, orpha)": c, "subsets": 1u32 << n}));
        }
    }
    // ---- operation sequences on one live HpoSet: queries interleaved with in-place mutations and Extend
    {
        let fam = family_e(2, 2, &[200, 7]);
        let depth = if thorough { 4 } else { 3 };
        ctx.space("histories/live-set", &format!("{} ontologies (k = 2) x 3 start sets x all sequences of length <= {depth} over {{extend(t) for each term, remove_obsolete, remove_modifier, replace_obsolete}}; after every step the whole observation of the live set (incl. information_content, gene/disease unions, categories) is compared with the model set", fam.len()));
        for (f, what) in &fam {
            if !ctx.take() {
                continue;
            }
            ctx.state();
            ctx.nontrivial();
            let r = RefOnt::derive(f);
            let ids: Vec<u32> = f.terms.iter().map(|t| t.id).collect();
            let n = ids.len();
            let ont = match drive::from_bytes(&encode::encode(f, &EncOpts::v(3))) {
                Ok(Ok(o)) => o,
                _ => continue,
            };
            // ops: 0..n = extend(ids[i]); n = remove_obsolete; n+1 = remove_modifier; n+2 = replace_obsolete;
            // n+3 = extend(all terms, descending); n+4 = extend([t2, t2, t0]) (a repeat inside one call, one of them
            // possibly a member); n+5 = extend(the set's own members, collected first)
            let nops = n + 6;
            let starts: Vec<Vec<u32>> = vec![vec![], vec![ids[3]], ids.clone()];
            let mut seqs: Vec<Vec<usize>> = vec![vec![]];
            let mut frontier: Vec<Vec<usize>> = vec![vec![]];
            for _ in 0..depth {
                let mut next = vec![];
                for sq in &frontier {
                    for op in 0..nops {
                        let mut t = sq.clone();
                        t.push(op);
                        next.push(t);
                    }
                }
                seqs.extend(next.iter().cloned());
                frontier = next;
            }
            for start in &starts {
                for sq in &seqs {
                    ctx.exec();
                    ctx.validated();
                    ctx.transitions(sq.len() as u64 + 1);
                    let res = guard(|| -> V {
                        let mut set = set_of(&ont, start);
                        let mut model: BTreeSet<u32> = start.iter().copied().collect();
                        let snapshot = |m: &BTreeSet<u32>| -> Vec<u32> { m.iter().copied().collect() };
                        if let Some(x) = check_set(&ont, &r, &set, &snapshot(&model)) {
                            return Some(x);
                        }
                        for (step, op) in sq.iter().enumerate() {
                            if *op < n {
                                set.extend(std::iter::once(ont.hpo(ids[*op]).unwrap()));
                                model.insert(ids[*op]);
                            } else if *op == n {
                                set.remove_obsolete();
                                model.retain(|t| !r.terms[t].obsolete);
                            } else if *op == n + 1 {
                                set.remove_modifier();
                                model.retain(|t| !r.is_modifier(*t, Mode::Defaults));
                            } else if *op == n + 2 {
                                set.replace_obsolete();
                                model = model.iter().map(|t| r.terms[t].replacement.unwrap_or(*t)).collect();
                            } else if *op == n + 3 {
                                set.extend(ids.iter().rev().map(|i| ont.hpo(*i).unwrap()));
                                model.extend(ids.iter().copied());
                            } else if *op == n + 4 {
                                set.extend([ids[2], ids[2], ids[0]].iter().map(|i| ont.hpo(*i).unwrap()));
                                model.extend([ids[2], ids[0]]);
                            } else {
                                let own: Vec<u32> = ids_of(&set);
                                set.extend(own.iter().map(|i| ont.hpo(*i).unwrap()));
                            }
                            if let Some((site, sig, det)) = check_set(&ont, &r, &set, &snapshot(&model)) {
                                return Some((site, format!("[live set after a sequence of operations] {sig}"), format!("start {start:?}, operations {:?} (step {step}): {det}", sq)));
                            }
                        }
                        None
                    });
                    match res {
                        Ok(None) => {}
                        Ok(Some((site, sig, det))) => ctx.violation(&site, &sig, json!({"family": what, "facts": f.to_json(), "operations_legend": format!("0..{n} = extend(term i of {ids:?}); {n} = remove_obsolete; {} = remove_modifier; {} = replace_obsolete; {} = extend(all terms descending); {} = extend([t2, t2, t0]); {} = extend(own members)", n + 1, n + 2, n + 3, n + 4, n + 5), "difference": det})),
                        Err(p) => ctx.violation("HpoSet", "[live set] panics", json!({"family": what, "facts": f.to_json(), "start": start, "operations": sq, "observed": p})),
                    }
                }
            }
            ctx.sample(|| json!({"family": what, "start_sets": starts, "sequences": seqs.len()}));
        }
    }

    // ---- structured large graphs: sets with more than 30 members / members with more than 30 ancestors
    {
        let family = crate::props::common::large_family();
        ctx.space("large-structured/structured-subsets", &format!("{} large shapes (loaded with defaults; every other shape below the modifier root HP:119 instead of HP:118; an obsolete+replaced last term; records on several terms) x structured subsets: every prefix, every suffix, every k-th term (k=2,3,7), all pairs (i, last), the full set", family.len()));
        for (base, what) in &family {
            if !ctx.take() {
                continue;
            }
            ctx.state();
            ctx.nontrivial();
            let mut f = base.clone();
            // every other shape hangs below a MODIFIER root instead of HP:118: node 1 becomes HP:119 (a child of
            // HP:1 other than 118) and a childless HP:118 is added - so that positive modifier classification is
            // exercised on terms with > 30 / > 255 ancestors as well
            let below_modifier = ctx.spaces.last().map(|s| s.1.cases % 2 == 0).unwrap_or(false);
            if below_modifier {
                for t in f.terms.iter_mut() {
                    if t.id == 118 {
                        t.id = 119;
                    }
                }
                for e in f.edges.iter_mut() {
                    if e.0 == 118 {
                        e.0 = 119;
                    }
                    if e.1 == 118 {
                        e.1 = 119;
                    }
                }
                f.terms.insert(1, Facts::term(118, "Phenotypic abnormality"));
                f.edges.push((118, 1));
            }
            let ids: Vec<u32> = f.terms.iter().map(|t| t.id).collect();
            let n = ids.len();
            f.terms[n - 1].obsolete = true;
            f.terms[n - 1].replacement = Some(ids[n / 2]);
            f.terms[n - 2].replacement = Some(ids[n - 1]);
            f.anns.push(Facts::ann(crate::model::Kind::Gene, 11, "GENE1", Some(ids[n - 1])));
            f.anns.push(Facts::ann(crate::model::Kind::Gene, 33, "GENE3", None));
            for i in (0..n).step_by(5) {
                f.anns.push(Facts::ann(crate::model::Kind::Gene, 22, "GENE2", Some(ids[i])));
                f.anns.push(Facts::ann(crate::model::Kind::Omim, 600_000 + (i as u32 % 3), &format!("Disease {}", i % 3), Some(ids[i])));
            }
            f.anns.push(Facts::ann(crate::model::Kind::Orpha, 77, "Orpha one", Some(ids[n / 3])));
            f.anns.push(Facts::ann(crate::model::Kind::Orpha, 78, "Orpha two, bare", None));
            let r = RefOnt::derive(&f);
            ctx.transitions(f.n_steps());
            let ont = match drive::from_bytes(&encode::encode(&f, &EncOpts::v(3))) {
                Ok(Ok(o)) => o,
                other => {
                    ctx.violation("Ontology::from_bytes", "rejects a file laid out as documented", json!({"shape": what, "observed": format!("{:?}", other.map(|r| r.map(|_| ())))}));
                    continue;
                }
            };
            let mut sorted = ids.clone();
            sorted.sort_unstable();
            let mut subsets: Vec<Vec<u32>> = vec![sorted.clone()];
            for k in 1..n {
                subsets.push(sorted[..k].to_vec());
                subsets.push(sorted[k..].to_vec());
            }
            for k in [2usize, 3, 7] {
                subsets.push(sorted.iter().copied().step_by(k).collect());
                subsets.push(sorted.iter().copied().skip(1).step_by(k).collect());
            }
            for i in 0..n {
                subsets.push(vec![ids[i], ids[n - 1]]);
            }
            for x in &subsets {
                ctx.exec();
                ctx.validated();
                ctx.transitions(16);
                match guard(|| check_subset(&ont, &r, x)) {
                    Ok(None) => {}
                    Ok(Some((site, sig, det))) => ctx.violation(&site, &format!("[large shape] {sig}"), json!({"shape": what, "difference": det})),
                    Err(p) => ctx.violation("HpoSet", "[large shape] panics", json!({"shape": what, "set": x, "observed": p})),
                }
            }
            ctx.sample(|| json!({"shape": what, "n_terms": n, "subsets": subsets.len(), "below_a_modifier_root": below_modifier}));
        }
    }

    // ---- unions of many records: 60 genes, 25 OMIM and 25 ORPHA diseases spread over a chain of 8 terms and two
    // side terms (record j on term j mod 10), every subset of the 10 terms
    {
        ctx.space("many-records/all-subsets", "HP:1, HP:118, a chain of 8 terms below HP:118 and two further children of HP:118; 60 genes / 25 OMIM / 25 ORPHA records, record j on term (j mod 10) and every 7th also on term (3j mod 10); all 2^10 subsets of the ten terms; decoder and Builder");
        if ctx.take() {
            ctx.state();
            ctx.nontrivial();
            let mut f = Facts::default();
            f.version = (2024, 2, 29);
            f.terms = vec![Facts::term(1, "All"), Facts::term(118, "Phenotypic abnormality")];
            f.edges = vec![(118, 1)];
            let ten: Vec<u32> = vec![210, 220, 230, 240, 250, 260, 270, 280, 300, 310];
            for (k, t) in ten.iter().enumerate() {
                f.terms.push(Facts::term(*t, &format!("M{k}")));
                f.edges.push((*t, if k == 0 || k >= 8 { 118 } else { ten[k - 1] }));
            }
            for (kind, count) in [(Kind::Gene, 60u32), (Kind::Omim, 25), (Kind::Orpha, 25)] {
                for j in 0..count {
                    f.anns.push(Facts::ann(kind, 1000 + j, &format!("R{j}"), Some(ten[(j % 10) as usize])));
                    if j % 7 == 0 {
                        f.anns.push(Facts::ann(kind, 1000 + j, &format!("R{j}"), Some(ten[((3 * j) % 10) as usize])));
                    }
                }
            }
            let r = RefOnt::derive(&f);
            ctx.transitions(2 * f.n_steps());
            let mut onts: Vec<(Ontology, &str)> = vec![];
            if let Ok(Ok(o)) = drive::from_bytes(&encode::encode(&f, &EncOpts::v(3))) {
                onts.push((o, "from_bytes"));
            }
            if let Ok(o) = drive::build(&f, Mode::Defaults) {
                onts.push((o, "builder"));
            }
            if onts.len() != 2 {
                ctx.violation("Ontology::from_bytes", "construction fails on valid facts", json!({"layout": "many records"}));
            }
            for (ont, path) in &onts {
                for mask in 0..(1u32 << 10) {
                    let x: Vec<u32> = crate::space::bits(mask, 10).iter().map(|i| ten[*i]).collect();
                    ctx.exec();
                    ctx.validated();
                    ctx.transitions(16);
                    match guard(|| check_subset(ont, &r, &x)) {
                        Ok(None) => {}
                        Ok(Some((site, sig, det))) => {
                            ctx.violation(&site, &format!("[many records] {sig}"), json!({"constructor": path, "set": x, "difference": det}));
                            break;
                        }
                        Err(p) => {
                            ctx.violation("HpoSet", "[many records] panics", json!({"set": x, "observed": p}));
                            break;
                        }
                    }
                }
            }
            ctx.sample(|| json!({"records": [60, 25, 25], "subsets": 1024}));
        }
    }
    // ---- custom modifier roots and categories (Ontology::modifier_mut / categories_mut are public)
    let small = family_e(1, 2, &[200, 7]);
    ctx.space("custom-modifier-roots-and-categories", &format!("{} ontologies (k <= 2, no flags) built ONCE with build_minimal; every single term and every pair of terms in turn installed as custom modifier roots through modifier_mut() (lists re-edited after they were queried), categories set to one of two unrelated pairs through categories_mut(); every subset as HpoSet: without_modifier / remove_modifier / categories", small.iter().filter(|(f, _)| f.terms.iter().all(|t| !t.obsolete && t.replacement.is_none())).count()));
    for (f, what) in &small {
        if f.terms.iter().any(|t| t.obsolete || t.replacement.is_some()) {
            continue;
        }
        if !ctx.take() {
            continue;
        }
        ctx.state();
        ctx.nontrivial();
        let r = RefOnt::derive(f);
        let ids: Vec<u32> = f.terms.iter().map(|t| t.id).collect();
        let n = ids.len();
        let mut root_sets: Vec<Vec<u32>> = ids.iter().map(|i| vec![*i]).collect();
        for a in 0..n {
            for b in a + 1..n {
                root_sets.push(vec![ids[a], ids[b]]);
            }
        }
        // ONE ontology per fact set: the lists are edited again after they have been queried (a classification
        // remembered per term would go stale); the category pair alternates as well
        let Ok(mut ont) = drive::build(f, Mode::Minimal) else { continue };
        for (ri, roots) in root_sets.iter().enumerate() {
            let cats: Vec<u32> = if ri % 2 == 0 { vec![ids[n - 1], ids[1]] } else { vec![ids[0], ids[n - 2]] };
            ctx.transitions(f.n_steps() + 2);
            *ont.modifier_mut() = HpoGroup::new();
            *ont.categories_mut() = HpoGroup::new();
            for x in roots {
                ont.modifier_mut().insert(*x);
            }
            for c in &cats {
                ont.categories_mut().insert(*c);
            }
            for mask in 0..(1u32 << n) {
                let x: Vec<u32> = crate::space::bits(mask, n).iter().map(|i| ids[*i]).collect();
                ctx.exec();
                ctx.validated();
                let res = guard(|| -> V {
                    let set = set_of(&ont, &x);
                    let mut want: Vec<u32> = x.iter().copied().filter(|t| !r.anc_incl(*t).iter().any(|a| roots.contains(a))).collect();
                    want.sort_unstable();
                    let got = ids_of(&set.without_modifier());
                    if got != want {
                        return Some(("HpoSet::without_modifier".into(), "[custom modifier roots] does not drop exactly the members that are or descend from a modifier root".into(), format!("roots {roots:?} set {x:?}: {got:?} expected {want:?}")));
                    }
                    let mut m = set_of(&ont, &x);
                    m.remove_modifier();
                    if ids_of(&m) != want {
                        return Some(("HpoSet::remove_modifier".into(), "[custom modifier roots] in-place result differs from the copying counterpart".into(), format!("roots {roots:?} set {x:?}: {:?} expected {want:?}", ids_of(&m))));
                    }
                    for t in &x {
                        let tm = ont.hpo(*t).unwrap().is_modifier();
                        let wm = r.anc_incl(*t).iter().any(|a| roots.contains(a));
                        if tm != wm {
                            return Some(("HpoTerm::is_modifier".into(), "[custom modifier roots] wrong modifier classification".into(), format!("roots {roots:?} term {t}: {tm} expected {wm}")));
                        }
                    }
                    let mut wc: BTreeMap<u32, usize> = BTreeMap::new();
                    for t in &x {
                        for c in r.anc_incl(*t).iter().filter(|a| cats.contains(a)) {
                            *wc.entry(*c).or_insert(0) += 1;
                        }
                    }
                    let gc: BTreeMap<u32, usize> = set.categories().iter().map(|(k, v)| (k.as_u32(), *v)).collect();
                    if gc != wc {
                        return Some(("HpoSet::categories".into(), "[custom categories] does not count the members per category".into(), format!("categories {cats:?} set {x:?}: {gc:?} expected {wc:?}")));
                    }
                    None
                });
                match res {
                    Ok(None) => {}
                    Ok(Some((site, sig, det))) => ctx.violation(&site, &sig, json!({"family": what, "facts": f.to_json(), "difference": det})),
                    Err(p) => ctx.violation("HpoSet", "panics", json!({"family": what, "facts": f.to_json(), "set": x, "observed": p})),
                }
            }
        }
        ctx.sample(|| json!({"family": what, "custom_root_sets": root_sets.len(), "subsets": 1u32 << n}));
    }
    let _ = Facts::default;
    // ---- sequences of ontologies built one after the other at the same address: every subset of both
    super::common::ontology_sequences(ctx, "sets", Mode::Defaults, &mut |ont, r| {
        let ids: Vec<u32> = r.terms.keys().copied().collect();
        for mask in 0..(1u32 << ids.len()) {
            let x: Vec<u32> = crate::space::bits(mask, ids.len()).iter().map(|i| ids[*i]).collect();
            if let Some(v) = check_subset(ont, r, &x) {
                return Some(v);
            }
        }
        None
    });
}
