//! C19 - default categories and modifiers classify every term as documented.

use super::common::{via_binary, via_builder, via_jax};
use hpo::annotations::AnnotationId;
use crate::ctx::Ctx;
use crate::drive;
use crate::encode::{self, EncOpts};
use crate::jax::{self, JaxOpts};
use crate::model::{Facts, Mode, RefOnt};
use crate::space::{all_dags, Dag};
use serde_json::json;

/// id pools: both roots present, the further ids below / between / above HP:0000118
const POOLS: [[u32; 6]; 4] = [[1, 118, 119, 4000, 77_777, 9_999_999], [1, 5, 118, 4000, 77_777, 9_999_999], [1, 5, 7, 118, 4000, 77_777], [1, 5, 7, 9, 118, 4000]];

fn nontrivial(d: &Dag, ids: &[u32]) -> bool {
    // some term other than the roots is linked to something
    let _ = ids;
    d.n_edges() >= 2
}

/// expected failure: a root is missing -> build_with_defaults / from_bytes / from_standard must return Err
fn expect_err(ctx: &mut Ctx, f: &Facts, what: &str, do_binary: bool, do_jax: bool) {
    ctx.transitions(f.n_steps());
    ctx.exec();
    ctx.validated();
    match drive::build(f, Mode::Defaults) {
        Err(e) if e.starts_with("build_with_defaults") => {}
        Err(e) => ctx.violation("Builder::build_with_defaults", "fails in the wrong place or panics when a root term is missing", json!({"facts": f.to_json(), "missing": what, "observed": e})),
        Ok(_) => ctx.violation("Builder::build_with_defaults", "succeeds although a root term is missing", json!({"facts": f.to_json(), "missing": what, "rust": f.to_rust(true)})),
    }
    if do_binary {
        ctx.exec();
        ctx.validated();
        let bytes = encode::encode(f, &EncOpts::v(3));
        match drive::from_bytes(&bytes) {
            Ok(Err(_)) => {}
            Ok(Ok(_)) => ctx.violation("Ontology::from_bytes", "succeeds although a root term is missing", json!({"facts": f.to_json(), "missing": what})),
            Err(p) => ctx.violation("Ontology::from_bytes", "panics instead of returning an error when a root term is missing", json!({"facts": f.to_json(), "missing": what, "observed": p})),
        }
    }
    if do_jax {
        let rendered = jax::render(f, &JaxOpts::default());
        for transitive in [false, true] {
            ctx.exec();
            ctx.validated();
            let site = if transitive { "Ontology::from_standard_transitive" } else { "Ontology::from_standard" };
            match jax::load(&rendered, transitive) {
                Ok(Err(_)) => {}
                Ok(Ok(_)) => ctx.violation(site, "succeeds although a root term is missing", json!({"facts": f.to_json(), "missing": what})),
                Err(p) => ctx.violation(site, "panics instead of returning an error when a root term is missing", json!({"facts": f.to_json(), "missing": what, "observed": p})),
            }
        }
    }
}

pub fn run(ctx: &mut Ctx) {
    ctx.rule = "case = (labelled DAG over HP:1, HP:118 and k further terms, id pool placing the further ids below/between/above 118); also with a root id replaced by an unrelated id; distinct by construction; non-trivial = at least two is_a links".into();
    ctx.assumptions = vec![
        "acyclic graphs; the roots are identified by their ids 1 and 118, whatever their position in the graph".into(),
        "setter sequences: 'built with defaults' = both public setters were called, in either order, also after the lists were cleared; after a single setter its own list must already be the documented default (set_default_categories documents its result without reference to the modifier list; set_default_modifier only needs HP:0000001)".into(),
    ];
    let max_n = if ctx.tier.thorough() { 6 } else { 5 };
    for n in 2..=max_n {
        let dags = all_dags(n);
        let pools: Vec<[u32; 6]> = POOLS.iter().copied().filter(|p| p[..n].contains(&118)).collect();
        ctx.space(&format!("defaults/D{n}"), &format!("{} labelled DAGs x {} id pools; Builder::build_with_defaults (all), from_bytes v3 (n<=4), from_standard (n<=3); each also with HP:1 / HP:118 / both missing", dags.len(), pools.len()));
        for d in &dags {
            for pool in &pools {
                if !ctx.take() {
                    continue;
                }
                ctx.state();
                if nontrivial(d, &pool[..n]) {
                    ctx.nontrivial();
                }
                let mut f = Facts::from_dag(d, pool);
                f.version = (2024, 2, 29);
                let r = RefOnt::derive(&f);
                via_builder(ctx, &f, &r, Mode::Defaults, "canonical");
                if n <= 4 {
                    via_binary(ctx, &f, &EncOpts::v(3), "canonical");
                    via_binary(ctx, &f, &EncOpts::v(1), "canonical");
                    // the obsolete flag / a replacement on any term must not change the classification
                    for k in 0..n {
                        if f.terms[k].id == 1 || f.terms[k].id == 118 {
                            continue;
                        }
                        let mut g = f.clone();
                        g.terms[k].obsolete = true;
                        g.terms[(k + 1) % n].replacement = Some(g.terms[k].id);
                        via_binary(ctx, &g, &EncOpts::v(3), "one term flagged obsolete, the next one replaced by it");
                        // obsolete AND replaced on one linked term (the replacement sits in another position of the
                        // graph): a term is classified by its own ancestors, not through its replacement
                        let mut h = f.clone();
                        h.terms[k].obsolete = true;
                        h.terms[k].replacement = Some(h.terms[(k + n - 1) % n].id);
                        via_binary(ctx, &h, &EncOpts::v(3), "one term flagged obsolete and replaced by the previous one");
                        if n <= 3 {
                            via_jax(ctx, &g, &JaxOpts::default(), false, "one term flagged obsolete, the next one replaced by it");
                        }
                    }
                }
                if n <= 3 {
                    via_jax(ctx, &f, &JaxOpts::default(), false, "canonical");
                    via_jax(ctx, &f, &JaxOpts::default(), true, "canonical (transitive loader)");
                }
                // a root missing: same graph, the root's id replaced by an unrelated one
                if n <= 4 || ctx.tier.thorough() {
                    for (what, swap) in [("HP:0000001", vec![(1u32, 2u32)]), ("HP:0000118", vec![(118, 117)]), ("both", vec![(1, 2), (118, 117)])] {
                        let mut g = f.clone();
                        for (from, to) in &swap {
                            for t in g.terms.iter_mut() {
                                if t.id == *from {
                                    t.id = *to;
                                    t.name = format!("T{to}");
                                }
                            }
                            for e in g.edges.iter_mut() {
                                if e.0 == *from {
                                    e.0 = *to;
                                }
                                if e.1 == *from {
                                    e.1 = *to;
                                }
                            }
                        }
                        expect_err(ctx, &g, what, n <= 4, n <= 3);
                    }
                }
                ctx.sample(|| json!({"dag": d.describe(), "ids": &pool[..n]}));
            }
        }
        jax::cleanup();
    }
    // ---- the public setters, called in every order on an ontology built WITHOUT defaults (and interleaved
    // with clearing the lists through the public mutators): each setter installs its documented default,
    // independent of the other list and of what was called before
    {
        #[derive(Clone, Copy, Debug, PartialEq)]
        enum Op {
            Cat,
            Mod,
            ClearMod,
            ClearCat,
            /// seed a list with a foreign id through the public mutator (a setter REPLACES the list)
            InsertMod,
            InsertCat,
        }
        let alpha = [Op::Cat, Op::Mod, Op::ClearMod, Op::ClearCat, Op::InsertMod, Op::InsertCat];
        let mut seqs: Vec<Vec<Op>> = vec![vec![]];
        let mut frontier: Vec<Vec<Op>> = vec![vec![]];
        for _ in 0..3 {
            let mut next = vec![];
            for q in &frontier {
                for a in alpha {
                    let mut t = q.clone();
                    t.push(a);
                    next.push(t);
                }
            }
            seqs.extend(next.iter().cloned());
            frontier = next;
        }
        for n in 2..=4usize {
            let dags = all_dags(n);
            ctx.space(&format!("setters/D{n}/call-sequences"), &format!("{} labelled DAGs over {:?} (also with HP:1 / HP:118 replaced by an unrelated id) built with build_minimal x all {} sequences of length <= 3 over {{set_default_categories, set_default_modifier, clearing either list, inserting the last term into either list through the public mutators}}: return values, both lists and every term's is_modifier / categories after every step", dags.len(), &POOLS[0][..n], seqs.len()));
            for d in &dags {
                if !ctx.take() {
                    continue;
                }
                ctx.state();
                ctx.nontrivial();
                let pool = if n <= 3 { [1u32, 118, 119, 4000, 77_777, 9_999_999] } else { [1, 5, 118, 4000, 77_777, 9_999_999] };
                let base = Facts::from_dag(d, &pool);
                for swap in [None, Some((1u32, 2u32)), Some((118, 117))] {
                    let mut f = base.clone();
                    if let Some((from, to)) = swap {
                        for t in f.terms.iter_mut() {
                            if t.id == from {
                                t.id = to;
                            }
                        }
                        for e in f.edges.iter_mut() {
                            if e.0 == from {
                                e.0 = to;
                            }
                            if e.1 == from {
                                e.1 = to;
                            }
                        }
                    }
                    let r = RefOnt::derive(&f);
                    let has1 = r.terms.contains_key(&1);
                    let has118 = r.terms.contains_key(&118);
                    let def_mod = r.modifier_roots(Mode::Defaults);
                    let def_cat = r.categories(Mode::Defaults);
                    for seq in &seqs {
                        ctx.exec();
                        ctx.validated();
                        ctx.transitions(f.n_steps() + seq.len() as u64);
                        let res = crate::ctx::guard(|| -> Option<(String, String, String)> {
                            let mut ont = match drive::build(&f, Mode::Minimal) {
                                Ok(o) => o,
                                Err(e) => return Some(("Builder".into(), "construction fails on valid facts".into(), e)),
                            };
                            let mut cur_mod: std::collections::BTreeSet<u32> = Default::default();
                            let mut cur_cat: std::collections::BTreeSet<u32> = Default::default();
                            for (step, op) in seq.iter().enumerate() {
                                match op {
                                    Op::Cat => {
                                        let ok = ont.set_default_categories().is_ok();
                                        if ok != (has1 && has118) {
                                            return Some(("Ontology::set_default_categories".into(), if ok { "succeeds although a root term is missing".into() } else { "fails although both root terms exist".into() }, format!("step {step} of {seq:?}")));
                                        }
                                        if ok {
                                            cur_cat = def_cat.clone();
                                        } else {
                                            // what a refused setter leaves in its list is not specified
                                            cur_cat = ont.categories().iter().map(|i| i.as_u32()).collect();
                                        }
                                    }
                                    Op::Mod => {
                                        let ok = ont.set_default_modifier().is_ok();
                                        if ok != has1 {
                                            return Some(("Ontology::set_default_modifier".into(), if ok { "succeeds although HP:0000001 is missing".into() } else { "fails although HP:0000001 exists".into() }, format!("step {step} of {seq:?}")));
                                        }
                                        if ok {
                                            cur_mod = def_mod.clone();
                                        } else {
                                            cur_mod = ont.modifier().iter().map(|i| i.as_u32()).collect();
                                        }
                                    }
                                    Op::ClearMod => {
                                        *ont.modifier_mut() = hpo::term::HpoGroup::new();
                                        cur_mod.clear();
                                    }
                                    Op::ClearCat => {
                                        *ont.categories_mut() = hpo::term::HpoGroup::new();
                                        cur_cat.clear();
                                    }
                                    Op::InsertMod => {
                                        let x = f.terms[f.terms.len() - 1].id;
                                        ont.modifier_mut().insert(x);
                                        cur_mod.insert(x);
                                    }
                                    Op::InsertCat => {
                                        let x = f.terms[f.terms.len() - 1].id;
                                        ont.categories_mut().insert(x);
                                        cur_cat.insert(x);
                                    }
                                }
                                let got_mod: Vec<u32> = ont.modifier().iter().map(|i| i.as_u32()).collect();
                                let got_cat: Vec<u32> = ont.categories().iter().map(|i| i.as_u32()).collect();
                                if got_mod != cur_mod.iter().copied().collect::<Vec<u32>>() {
                                    return Some(("Ontology::modifier".into(), "modifier roots are not the documented default after the setter calls".into(), format!("after step {step} of {seq:?}: {got_mod:?} expected {cur_mod:?}")));
                                }
                                if got_cat != cur_cat.iter().copied().collect::<Vec<u32>>() {
                                    return Some(("Ontology::categories".into(), "categories are not the documented default after the setter calls".into(), format!("after step {step} of {seq:?}: {got_cat:?} expected {cur_cat:?}")));
                                }
                                for t in &ont {
                                    let id = t.id().as_u32();
                                    let anc = r.anc_incl(id);
                                    let want_m = anc.iter().any(|a| cur_mod.contains(a));
                                    if t.is_modifier() != want_m {
                                        return Some(("HpoTerm::is_modifier".into(), "does not follow the installed modifier roots".into(), format!("term {id} after step {step} of {seq:?}")));
                                    }
                                    let want_c: Vec<u32> = anc.iter().copied().filter(|a| cur_cat.contains(a)).collect();
                                    let got_c: Vec<u32> = t.categories().iter().map(|i| i.as_u32()).collect();
                                    if got_c != want_c {
                                        return Some(("HpoTerm::categories".into(), "does not follow the installed categories".into(), format!("term {id} after step {step} of {seq:?}: {got_c:?} expected {want_c:?}")));
                                    }
                                }
                            }
                            None
                        });
                        match res {
                            Ok(None) => {}
                            Ok(Some((site, sig, det))) => {
                                ctx.violation(&site, &format!("[setter sequence] {sig}"), json!({"facts": f.to_json(), "sequence": format!("{seq:?}"), "difference": det}));
                                break;
                            }
                            Err(p) => {
                                ctx.violation("Ontology setters", "[setter sequence] panics", json!({"facts": f.to_json(), "sequence": format!("{seq:?}"), "observed": p}));
                                break;
                            }
                        }
                    }
                }
                ctx.sample(|| json!({"dag": d.describe(), "sequences": seqs.len()}));
            }
        }
    }
    // ---- structured large graphs (deep chain of 300, fans, trunk + fork ...) in ancestors-first and
    // descendants-first supply order: classification of terms far below the roots
    {
        let family = super::common::large_family();
        ctx.space("defaults/large-structured", &format!("{} large shapes x (ascending | descending | inside-out supply order) via Builder::build_with_defaults and from_bytes v3: modifier roots, categories, is_modifier and per-term categories of every term", family.len()));
        for (base, what) in &family {
            if !ctx.take() {
                continue;
            }
            ctx.state();
            ctx.nontrivial();
            let r = RefOnt::derive(base);
            let n = base.terms.len();
            for (order, oname) in super::common::large_orders(n).into_iter().filter(|(_, name)| !name.starts_with("rotated") && !name.starts_with("even")) {
                let f = Facts { terms: crate::space::apply_perm(&base.terms, &order), ..base.clone() };
                via_builder(ctx, &f, &r, Mode::Defaults, oname);
                via_binary(ctx, &f, &EncOpts::v(3), oname);
            }
            ctx.sample(|| json!({"shape": what, "n_terms": n}));
        }
    }
    // ---- sequences of ontologies built one after the other at the same address
    super::common::ontology_sequences(ctx, "defaults", Mode::Defaults, &mut super::common::obs_oracle(Mode::Defaults));
}
