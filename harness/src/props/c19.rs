//! C19 - default categories and modifiers classify every term as documented.

use super::common::{via_binary, via_builder, via_jax};
use hpo::annotations::AnnotationId;
use crate::ctx::Ctx;
use crate::drive;
use crate::encode::{self, EncOpts};
use crate::jax::{self, JaxOpts};
use crate::model::{Facts, Mode, RefOnt};
use crate::space::{all_dags, Dag};
use serde_json::json;

/// id pools: both roots present, the further ids below / between / above HP:0000118
const POOLS: [[u32; 6]; 4] = [[1, 118, 119, 4000, 77_777, 9_999_999], [1, 5, 118, 4000, 77_777, 9_999_999], [1, 5, 7, 118, 4000, 77_777], [1, 5, 7, 9, 118, 4000]];

fn nontrivial(d: &Dag, ids: &[u32]) -> bool {
    // some term other than the roots is linked to something
    let _ = ids;
    d.n_edges() >= 2
}

/// expected failure: a root is missing -> build_with_defaults / from_bytes / from_standard must return Err
fn expect_err(ctx: &mut Ctx, f: &Facts, what: &str, do_binary: bool, do_jax: bool) {
    ctx.transitions(f.n_steps());
    ctx.exec();
    ctx.validated();
    match drive::build(f, Mode::Defaults) {
        // "building fails with an error": which of the fallible Builder calls raises it is not fixed
        Err(e) if !e.starts_with("panic:") => {}
        Err(e) => ctx.violation("Builder::build_with_defaults", "panics instead of returning an error when a root term is missing", json!({"facts": f.to_json(), "missing": what, "observed": e})),
        Ok(_) => ctx.violation("Builder::build_with_defaults", "succeeds although a root term is missing", json!({"facts": f.to_json(), "missing": what, "rust": f.to_rust(true)})),
    }
    if do_binary {
        ctx.exec();
        ctx.validated();
        let bytes = encode::encode(f, &EncOpts::v(3));
        match drive::from_bytes(&bytes) {
            Ok(Err(_)) => {}
            Ok(Ok(_)) => ctx.violation("Ontology::from_bytes", "succeeds although a root term is missing", json!({"facts": f.to_json(), "missing": what})),
            Err(p) => ctx.violation("Ontology::from_bytes", "panics instead of returning an error when a root term is missing", json!({"facts": f.to_json(), "missing": what, "observed": p})),
        }
    }
    if do_jax {
        let rendered = jax::render(f, &JaxOpts::default());
        for transitive in [false, true] {
            ctx.exec();
            ctx.validated();
            let site = if transitive { "Ontology::from_standard_transitive" } else { "Ontology::from_standard" };
            match jax::load(&rendered, transitive) {
                Ok(Err(_)) => {}
                Ok(Ok(_)) => ctx.violation(site, "succeeds although a root term is missing", json!({"facts": f.to_json(), "missing": what})),
                Err(p) => ctx.violation(site, "panics instead of returning an error when a root term is missing", json!({"facts": f.to_json(), "missing": what, "observed": p})),
            }
        }
    }
}

pub fn run(ctx: &mut Ctx) {
    ctx.rule = "case = (labelled DAG over HP:1, HP:118 and k further terms, id pool placing the further ids below/between/above 118); also with a root id replaced by an unrelated id; distinct by construction; non-trivial = at least two is_a links".into();
    ctx.assumptions = vec![
        "acyclic graphs; the roots are identified by their ids 1 and 118, whatever their position in the graph".into(),
        "setter sequences: 'built with defaults' = both public setters were called, in either order, also after the lists were cleared; after a single setter its own list must already be the documented default (set_default_categories documents its result without reference to the modifier list); with HP:0000118 missing set_default_modifier may refuse or install the children of HP:0000001".into(),
    ];
    let max_n = if ctx.tier.thorough() { 6 } else { 5 };
    // text loaders and Ontology::clone are the expensive paths: one term more in the thorough tier
    let (jax_n, clone_n) = if ctx.tier.thorough() { (4, 4) } else { (3, 3) };
    for n in 2..=max_n {
        let dags = all_dags(n);
        let pools: Vec<[u32; 6]> = POOLS.iter().copied().filter(|p| p[..n].contains(&118)).collect();
        ctx.space(&format!("defaults/D{n}"), &format!("{} labelled DAGs x {} id pools; Builder::build_with_defaults (all; n<={clone_n}: also observed on a clone after the original was dropped), from_bytes v3+v1 (n<=4; each term in turn, the two roots included, flagged obsolete with a replacement), from_standard and from_standard_transitive (n<={jax_n}); each also with HP:1 / HP:118 / both missing", dags.len(), pools.len()));
        for d in &dags {
            for pool in &pools {
                if !ctx.take() {
                    continue;
                }
                ctx.state();
                if nontrivial(d, &pool[..n]) {
                    ctx.nontrivial();
                }
                let mut f = Facts::from_dag(d, pool);
                f.version = (2024, 2, 29);
                let r = RefOnt::derive(&f);
                via_builder(ctx, &f, &r, Mode::Defaults, "canonical");
                if n <= 4 {
                    via_binary(ctx, &f, &EncOpts::v(3), "canonical");
                    via_binary(ctx, &f, &EncOpts::v(1), "canonical");
                    // the parent ids of every record in descending order (a file of another writer; refuse-or-exact:
                    // a reader that accepts it must classify every term as the graph says)
                    if f.edges.len() > 1 {
                        let mut g = f.clone();
                        g.edges.reverse();
                        via_binary(ctx, &g, &EncOpts::list_order(3), "parent ids inside records descending");
                    }
                    // the obsolete flag / a replacement on any term must not change the classification
                    for k in 0..n {
                        if f.terms[k].id == 1 || f.terms[k].id == 118 {
                            // a root term that carries the obsolete flag and a replacement is still contained in the
                            // ontology: the defaults are built from it as from any other term
                            let mut h = f.clone();
                            h.terms[k].obsolete = true;
                            h.terms[k].replacement = Some(h.terms[(k + 1) % n].id);
                            via_binary(ctx, &h, &EncOpts::v(3), "a root term flagged obsolete and replaced by the next term");
                            continue;
                        }
                        let mut g = f.clone();
                        g.terms[k].obsolete = true;
                        g.terms[(k + 1) % n].replacement = Some(g.terms[k].id);
                        via_binary(ctx, &g, &EncOpts::v(3), "one term flagged obsolete, the next one replaced by it");
                        // obsolete AND replaced on one linked term (the replacement sits in another position of the
                        // graph): a term is classified by its own ancestors, not through its replacement
                        let mut h = f.clone();
                        h.terms[k].obsolete = true;
                        h.terms[k].replacement = Some(h.terms[(k + n - 1) % n].id);
                        via_binary(ctx, &h, &EncOpts::v(3), "one term flagged obsolete and replaced by the previous one");
                        if n <= jax_n {
                            via_jax(ctx, &g, &JaxOpts::default(), false, "one term flagged obsolete, the next one replaced by it");
                        }
                    }
                }
                if n <= jax_n {
                    via_jax(ctx, &f, &JaxOpts::default(), false, "canonical");
                    via_jax(ctx, &f, &JaxOpts::default(), true, "canonical (transitive loader)");
                }
                // a copy of the ontology, observed after the original is gone, classifies like the original
                // (Ontology::clone copies the 80 MB id table: small graphs only)
                if n <= clone_n {
                    ctx.transitions(f.n_steps());
                    match drive::build(&f, Mode::Defaults) {
                        Err(e) => ctx.violation("Builder", "[builder] construction fails on valid facts", json!({"case": f.to_json(), "observed": e})),
                        Ok(ont) => match crate::ctx::guard(|| {
                            let copy = ont.clone();
                            drop(ont);
                            copy
                        }) {
                            Err(p) => ctx.violation("Ontology::clone", "[clone] panics", json!({"case": f.to_json(), "observed": p})),
                            Ok(copy) => {
                                let case = || json!({"facts": f.to_json(), "order": "canonical", "observed_on": "ontology.clone(), after the original was dropped"});
                                drive::check_against_model(ctx, &copy, &r, Mode::Defaults, "clone", &case);
                            }
                        },
                    }
                }
                // a root missing: same graph, the root's id replaced by an unrelated one
                if n <= 4 || ctx.tier.thorough() {
                    for (what, swap) in [("HP:0000001", vec![(1u32, 2u32)]), ("HP:0000118", vec![(118, 117)]), ("both", vec![(1, 2), (118, 117)])] {
                        let mut g = f.clone();
                        for (from, to) in &swap {
                            for t in g.terms.iter_mut() {
                                if t.id == *from {
                                    t.id = *to;
                                    t.name = format!("T{to}");
                                }
                            }
                            for e in g.edges.iter_mut() {
                                if e.0 == *from {
                                    e.0 = *to;
                                }
                                if e.1 == *from {
                                    e.1 = *to;
                                }
                            }
                        }
                        expect_err(ctx, &g, what, n <= 4, n <= jax_n);
                    }
                }
                ctx.sample(|| json!({"dag": d.describe(), "ids": &pool[..n]}));
            }
        }
        jax::cleanup();
    }
    // ---- the public setters, called in every order on an ontology built WITHOUT defaults (and interleaved
    // with clearing the lists through the public mutators): each setter installs its documented default,
    // independent of the other list and of what was called before
    {
        #[derive(Clone, Copy, Debug, PartialEq)]
        enum Op {
            Cat,
            Mod,
            ClearMod,
            ClearCat,
            /// seed a list with a foreign id through the public mutator (a setter REPLACES the list)
            InsertMod,
            InsertCat,
        }
        let alpha = [Op::Cat, Op::Mod, Op::ClearMod, Op::ClearCat, Op::InsertMod, Op::InsertCat];
        let mut seqs: Vec<Vec<Op>> = vec![vec![]];
        let mut frontier: Vec<Vec<Op>> = vec![vec![]];
        for _ in 0..3 {
            let mut next = vec![];
            for q in &frontier {
                for a in alpha {
                    let mut t = q.clone();
                    t.push(a);
                    next.push(t);
                }
            }
            seqs.extend(next.iter().cloned());
            frontier = next;
        }
        for n in 2..=4usize {
            let dags = all_dags(n);
            ctx.space(&format!("setters/D{n}/call-sequences"), &format!("{} labelled DAGs over {:?} (also with HP:1 / HP:118 replaced by an unrelated id) built with build_minimal x all {} sequences of length <= 3 over {{set_default_categories, set_default_modifier, clearing either list, inserting the last term into either list through the public mutators}}: return values, both lists and every term's is_modifier / categories after every step", dags.len(), &POOLS[0][..n], seqs.len()));
            for d in &dags {
                if !ctx.take() {
                    continue;
                }
                ctx.state();
                ctx.nontrivial();
                let pool = if n <= 3 { [1u32, 118, 119, 4000, 77_777, 9_999_999] } else { [1, 5, 118, 4000, 77_777, 9_999_999] };
                let base = Facts::from_dag(d, &pool);
                for swap in [None, Some((1u32, 2u32)), Some((118, 117))] {
                    let mut f = base.clone();
                    if let Some((from, to)) = swap {
                        for t in f.terms.iter_mut() {
                            if t.id == from {
                                t.id = to;
                            }
                        }
                        for e in f.edges.iter_mut() {
                            if e.0 == from {
                                e.0 = to;
                            }
                            if e.1 == from {
                                e.1 = to;
                            }
                        }
                    }
                    let r = RefOnt::derive(&f);
                    let has1 = r.terms.contains_key(&1);
                    let has118 = r.terms.contains_key(&118);
                    let def_mod = r.modifier_roots(Mode::Defaults);
                    let def_cat = r.categories(Mode::Defaults);
                    for seq in &seqs {
                        ctx.exec();
                        ctx.validated();
                        ctx.transitions(f.n_steps() + seq.len() as u64);
                        let res = crate::ctx::guard(|| -> Option<(String, String, String)> {
                            let mut ont = match drive::build(&f, Mode::Minimal) {
                                Ok(o) => o,
                                Err(e) => return Some(("Builder".into(), "construction fails on valid facts".into(), e)),
                            };
                            let mut cur_mod: std::collections::BTreeSet<u32> = Default::default();
                            let mut cur_cat: std::collections::BTreeSet<u32> = Default::default();
                            for (step, op) in seq.iter().enumerate() {
                                match op {
                                    Op::Cat => {
                                        let ok = ont.set_default_categories().is_ok();
                                        if ok != (has1 && has118) {
                                            return Some(("Ontology::set_default_categories".into(), if ok { "succeeds although a root term is missing".into() } else { "fails although both root terms exist".into() }, format!("step {step} of {seq:?}")));
                                        }
                                        if ok {
                                            cur_cat = def_cat.clone();
                                        } else {
                                            // what a refused setter leaves in its list is not specified
                                            cur_cat = ont.categories().iter().map(|i| i.as_u32()).collect();
                                        }
                                    }
                                    Op::Mod => {
                                        let ok = ont.set_default_modifier().is_ok();
                                        // HP:0000001 present, HP:0000118 missing: the statement only says that building
                                        // with defaults fails; this setter alone may refuse too, or install the children of HP:1
                                        if ok != has1 && !(has1 && !has118) {
                                            return Some(("Ontology::set_default_modifier".into(), if ok { "succeeds although HP:0000001 is missing".into() } else { "fails although both root terms exist".into() }, format!("step {step} of {seq:?}")));
                                        }
                                        if ok {
                                            cur_mod = def_mod.clone();
                                        } else {
                                            cur_mod = ont.modifier().iter().map(|i| i.as_u32()).collect();
                                        }
                                    }
                                    Op::ClearMod => {
                                        *ont.modifier_mut() = hpo::term::HpoGroup::new();
                                        cur_mod.clear();
                                    }
                                    Op::ClearCat => {
                                        *ont.categories_mut() = hpo::term::HpoGroup::new();
                                        cur_cat.clear();
                                    }
                                    Op::InsertMod => {
                                        let x = f.terms[f.terms.len() - 1].id;
                                        ont.modifier_mut().insert(x);
                                        cur_mod.insert(x);
                                    }
                                    Op::InsertCat => {
                                        let x = f.terms[f.terms.len() - 1].id;
                                        ont.categories_mut().insert(x);
                                        cur_cat.insert(x);
                                    }
                                }
                                let got_mod: Vec<u32> = ont.modifier().iter().map(|i| i.as_u32()).collect();
                                let got_cat: Vec<u32> = ont.categories().iter().map(|i| i.as_u32()).collect();
                                if got_mod != cur_mod.iter().copied().collect::<Vec<u32>>() {
                                    return Some(("Ontology::modifier".into(), "modifier roots are not the documented default after the setter calls".into(), format!("after step {step} of {seq:?}: {got_mod:?} expected {cur_mod:?}")));
                                }
                                if got_cat != cur_cat.iter().copied().collect::<Vec<u32>>() {
                                    return Some(("Ontology::categories".into(), "categories are not the documented default after the setter calls".into(), format!("after step {step} of {seq:?}: {got_cat:?} expected {cur_cat:?}")));
                                }
                                for t in &ont {
                                    let id = t.id().as_u32();
                                    let anc = r.anc_incl(id);
                                    let want_m = anc.iter().any(|a| cur_mod.contains(a));
                                    if t.is_modifier() != want_m {
                                        return Some(("HpoTerm::is_modifier".into(), "does not follow the installed modifier roots".into(), format!("term {id} after step {step} of {seq:?}")));
                                    }
                                    let want_c: Vec<u32> = anc.iter().copied().filter(|a| cur_cat.contains(a)).collect();
                                    let got_c: Vec<u32> = t.categories().iter().map(|i| i.as_u32()).collect();
                                    if got_c != want_c {
                                        return Some(("HpoTerm::categories".into(), "does not follow the installed categories".into(), format!("term {id} after step {step} of {seq:?}: {got_c:?} expected {want_c:?}")));
                                    }
                                }
                            }
                            None
                        });
                        match res {
                            Ok(None) => {}
                            Ok(Some((site, sig, det))) => {
                                ctx.violation(&site, &format!("[setter sequence] {sig}"), json!({"facts": f.to_json(), "sequence": format!("{seq:?}"), "difference": det}));
                                break;
                            }
                            Err(p) => {
                                ctx.violation("Ontology setters", "[setter sequence] panics", json!({"facts": f.to_json(), "sequence": format!("{seq:?}"), "observed": p}));
                                break;
                            }
                        }
                    }
                }
                ctx.sample(|| json!({"dag": d.describe(), "sequences": seqs.len()}));
            }
        }
    }
    // ---- structured large graphs (deep chain of 300, fans, trunk + fork ...) in ancestors-first and
    // descendants-first supply order: classification of terms far below the roots
    {
        let family = super::common::large_family();
        ctx.space("defaults/large-structured", &format!("{} large shapes x (ascending | descending | inside-out supply order) via Builder::build_with_defaults and from_bytes v3: modifier roots, categories, is_modifier and per-term categories of every term", family.len()));
        for (base, what) in &family {
            if !ctx.take() {
                continue;
            }
            ctx.state();
            ctx.nontrivial();
            let r = RefOnt::derive(base);
            let n = base.terms.len();
            for (order, oname) in super::common::large_orders(n).into_iter().filter(|(_, name)| !name.starts_with("rotated") && !name.starts_with("even")) {
                let f = Facts { terms: crate::space::apply_perm(&base.terms, &order), ..base.clone() };
                via_builder(ctx, &f, &r, Mode::Defaults, oname);
                via_binary(ctx, &f, &EncOpts::v(3), oname);
            }
            ctx.sample(|| json!({"shape": what, "n_terms": n}));
        }
    }
    // ---- the modifier side at size: every large shape hangs below HP:118, so is_modifier() is true only for
    // terms with a dozen ancestors and the modifier list never has more than ten entries. Here (a) the same
    // shapes hang below a modifier root (their node 1 renumbered HP:119 resp. HP:9999999, HP:118 a childless child
    // of HP:1): every deep term is a modifier whose only category is that root; (b) HP:1 has 29..40 children besides HP:118 (a
    // modifier list beyond the inline capacity 30 of an id group), each with a child, and one term sits below
    // all of these and below a phenotype branch
    {
        let mut family: Vec<(Facts, String)> = vec![];
        for (base, what) in super::common::large_family() {
            // the modifier root gets the second smallest id of the ontology (HP:119) in the shapes whose ids ascend
            // with the depth and the largest one (HP:9999999) in the others: in the sorted ancestor list of a deep
            // term it is the second resp. the last entry
            let m: u32 = if what.contains("smaller ids") { 9_999_999 } else { 119 };
            let mut f = base.clone();
            for t in f.terms.iter_mut() {
                if t.id == 118 {
                    t.id = m;
                }
            }
            for e in f.edges.iter_mut() {
                if e.0 == 118 {
                    e.0 = m;
                }
                if e.1 == 118 {
                    e.1 = m;
                }
            }
            f.terms.push(Facts::term(118, "Phenotypic abnormality"));
            f.edges.push((118, 1));
            family.push((f, format!("{what}; below modifier root HP:{m} instead of HP:118")));
        }
        let n_renumbered = family.len();
        for m in [29usize, 30, 31, 32, 40] {
            for reversed in [false, true] {
                let root = |k: usize| -> u32 { if reversed { 9000 - k as u32 } else { 1000 + k as u32 } };
                let below = |k: usize| -> u32 { if reversed { 8000 - k as u32 } else { 2000 + k as u32 } };
                let mut f = Facts::default();
                f.version = (2024, 2, 29);
                f.terms.push(Facts::term(1, "All"));
                f.terms.push(Facts::term(118, "Phenotypic abnormality"));
                f.edges.push((118, 1));
                for (id, name) in [(300u32, "P"), (301, "Q")] {
                    f.terms.push(Facts::term(id, name));
                    f.edges.push((id, 118));
                }
                for k in 0..m {
                    let (b, g) = (root(k), below(k));
                    f.terms.push(Facts::term(b, &format!("B{k}")));
                    f.terms.push(Facts::term(g, &format!("G{k}")));
                    f.edges.push((b, 1));
                    f.edges.push((g, b));
                }
                // x below every branch and below phenotype branch P, y below the first branch only, z below Q only
                f.terms.push(Facts::term(5000, "X"));
                for k in 0..m {
                    f.edges.push((5000, below(k)));
                }
                f.edges.push((5000, 300));
                f.terms.push(Facts::term(5001, "Y"));
                f.edges.push((5001, below(0)));
                f.terms.push(Facts::term(5002, "Z"));
                f.edges.push((5002, 301));
                family.push((f, format!("HP:1 with HP:118 and {m} further children, each with one child; one term below all {m} branches and below a child of HP:118{}", if reversed { " (later branches have smaller ids)" } else { "" })));
            }
        }
        ctx.space("defaults/large-modifier-branches", &format!("{} large shapes hanging below a modifier root (node 1 renumbered HP:119, or HP:9999999 where descendants have smaller ids; HP:118 a childless child of HP:1) and {} shapes with 29, 30, 31, 32, 40 top-level branches besides HP:118 (two id directions) x (ascending | descending | inside-out supply order) via Builder::build_with_defaults and from_bytes v3: modifier roots, categories, is_modifier and per-term categories of every term", n_renumbered, family.len() - n_renumbered));
        for (base, what) in &family {
            if !ctx.take() {
                continue;
            }
            ctx.state();
            ctx.nontrivial();
            let r = RefOnt::derive(base);
            let n = base.terms.len();
            for (order, oname) in super::common::large_orders(n).into_iter().filter(|(_, name)| !name.starts_with("rotated") && !name.starts_with("even")) {
                let f = Facts { terms: crate::space::apply_perm(&base.terms, &order), ..base.clone() };
                via_builder(ctx, &f, &r, Mode::Defaults, oname);
                via_binary(ctx, &f, &EncOpts::v(3), oname);
            }
            ctx.sample(|| json!({"shape": what, "n_terms": n}));
        }
    }
    // ---- four- and five-term shapes through the text loaders (the exhaustive text path stops at three terms in
    // the quick tier): HP:1, HP:118, modifier root HP:5 and one or two free terms with every parent choice over
    // {118, 5, earlier free term} - a term below a modifier root AND a phenotype branch, flagged terms, records
    {
        let fam: Vec<(Facts, String)> = super::common::family_e(1, 2, &[4000, 7]).into_iter().filter(|(f, what)| f.terms.len() == 4 || what.contains("no flags")).collect();
        ctx.space("jax/family-E", &format!("{} fact sets of family E (k = 1: every parent subset x three flag patterns; k = 2: every parent choice, no flags) x from_standard and from_standard_transitive", fam.len()));
        for (f, what) in &fam {
            if !ctx.take() {
                continue;
            }
            ctx.state();
            ctx.nontrivial();
            via_jax(ctx, f, &JaxOpts::default(), false, what);
            via_jax(ctx, f, &JaxOpts::default(), true, what);
            ctx.sample(|| json!({"shape": what}));
        }
        jax::cleanup();
    }
    // ---- sequences of ontologies built one after the other at the same address
    super::common::ontology_sequences(ctx, "defaults", Mode::Defaults, &mut super::common::obs_oracle(Mode::Defaults));
}
