//! C19 - default categories and modifiers classify every term as documented.

use super::common::{via_binary, via_builder, via_jax};
use crate::ctx::Ctx;
use crate::drive;
use crate::encode::{self, EncOpts};
use crate::jax::{self, JaxOpts};
use crate::model::{Facts, Mode, RefOnt};
use crate::space::{all_dags, Dag};
use serde_json::json;

/// id pools: both roots present, the further ids below / between / above HP:0000118
const POOLS: [[u32; 6]; 4] = [[1, 118, 119, 4000, 77_777, 9_999_999], [1, 5, 118, 4000, 77_777, 9_999_999], [1, 5, 7, 118, 4000, 77_777], [1, 5, 7, 9, 118, 4000]];

fn nontrivial(d: &Dag, ids: &[u32]) -> bool {
    // some term other than the roots is linked to something
    let _ = ids;
    d.n_edges() >= 2
}

/// expected failure: a root is missing -> build_with_defaults / from_bytes / from_standard must return Err
fn expect_err(ctx: &mut Ctx, f: &Facts, what: &str, do_binary: bool, do_jax: bool) {
    ctx.transitions(f.n_steps());
    ctx.exec();
    ctx.validated();
    match drive::build(f, Mode::Defaults) {
        Err(e) if e.starts_with("build_with_defaults") => {}
        Err(e) => ctx.violation("Builder::build_with_defaults", "fails in the wrong place or panics when a root term is missing", json!({"facts": f.to_json(), "missing": what, "observed": e})),
        Ok(_) => ctx.violation("Builder::build_with_defaults", "succeeds although a root term is missing", json!({"facts": f.to_json(), "missing": what, "rust": f.to_rust(true)})),
    }
    if do_binary {
        ctx.exec();
        ctx.validated();
        let bytes = encode::encode(f, &EncOpts::v(3));
        match drive::from_bytes(&bytes) {
            Ok(Err(_)) => {}
            Ok(Ok(_)) => ctx.violation("Ontology::from_bytes", "succeeds although a root term is missing", json!({"facts": f.to_json(), "missing": what})),
            Err(p) => ctx.violation("Ontology::from_bytes", "panics instead of returning an error when a root term is missing", json!({"facts": f.to_json(), "missing": what, "observed": p})),
        }
    }
    if do_jax {
        ctx.exec();
        ctx.validated();
        let rendered = jax::render(f, &JaxOpts::default());
        match jax::load(&rendered, false) {
            Ok(Err(_)) => {}
            Ok(Ok(_)) => ctx.violation("Ontology::from_standard", "succeeds although a root term is missing", json!({"facts": f.to_json(), "missing": what})),
            Err(p) => ctx.violation("Ontology::from_standard", "panics instead of returning an error when a root term is missing", json!({"facts": f.to_json(), "missing": what, "observed": p})),
        }
    }
}

pub fn run(ctx: &mut Ctx) {
    ctx.rule = "case = (labelled DAG over HP:1, HP:118 and k further terms, id pool placing the further ids below/between/above 118); also with a root id replaced by an unrelated id; distinct by construction; non-trivial = at least two is_a links".into();
    ctx.assumptions = vec!["acyclic graphs; the roots are identified by their ids 1 and 118, whatever their position in the graph".into()];
    let max_n = if ctx.tier.thorough() { 6 } else { 5 };
    for n in 2..=max_n {
        let dags = all_dags(n);
        let pools: Vec<[u32; 6]> = POOLS.iter().copied().filter(|p| p[..n].contains(&118)).collect();
        ctx.space(&format!("defaults/D{n}"), &format!("{} labelled DAGs x {} id pools; Builder::build_with_defaults (all), from_bytes v3 (n<=4), from_standard (n<=3); each also with HP:1 / HP:118 / both missing", dags.len(), pools.len()));
        for d in &dags {
            for pool in &pools {
                if !ctx.take() {
                    continue;
                }
                ctx.state();
                if nontrivial(d, &pool[..n]) {
                    ctx.nontrivial();
                }
                let mut f = Facts::from_dag(d, pool);
                f.version = (2024, 2, 29);
                let r = RefOnt::derive(&f);
                via_builder(ctx, &f, &r, Mode::Defaults, "canonical");
                if n <= 4 {
                    via_binary(ctx, &f, &EncOpts::v(3), "canonical");
                    via_binary(ctx, &f, &EncOpts::v(1), "canonical");
                    // the obsolete flag / a replacement on any term must not change the classification
                    for k in 0..n {
                        if f.terms[k].id == 1 || f.terms[k].id == 118 {
                            continue;
                        }
                        let mut g = f.clone();
                        g.terms[k].obsolete = true;
                        g.terms[(k + 1) % n].replacement = Some(g.terms[k].id);
                        via_binary(ctx, &g, &EncOpts::v(3), "one term flagged obsolete, the next one replaced by it");
                        if n <= 3 {
                            via_jax(ctx, &g, &JaxOpts::default(), false, "one term flagged obsolete, the next one replaced by it");
                        }
                    }
                }
                if n <= 3 {
                    via_jax(ctx, &f, &JaxOpts::default(), false, "canonical");
                }
                // a root missing: same graph, the root's id replaced by an unrelated one
                if n <= 4 || ctx.tier.thorough() {
                    for (what, swap) in [("HP:0000001", vec![(1u32, 2u32)]), ("HP:0000118", vec![(118, 117)]), ("both", vec![(1, 2), (118, 117)])] {
                        let mut g = f.clone();
                        for (from, to) in &swap {
                            for t in g.terms.iter_mut() {
                                if t.id == *from {
                                    t.id = *to;
                                    t.name = format!("T{to}");
                                }
                            }
                            for e in g.edges.iter_mut() {
                                if e.0 == *from {
                                    e.0 = *to;
                                }
                                if e.1 == *from {
                                    e.1 = *to;
                                }
                            }
                        }
                        expect_err(ctx, &g, what, n <= 4, n <= 3);
                    }
                }
                ctx.sample(|| json!({"dag": d.describe(), "ids": &pool[..n]}));
            }
        }
        jax::cleanup();
    }
    // ---- sequences of ontologies built one after the other at the same address
    super::common::ontology_sequences(ctx, "defaults", Mode::Defaults, &mut super::common::obs_oracle(Mode::Defaults));
}
