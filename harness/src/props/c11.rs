//! C11 - distances and paths between terms are valid walks of minimal length.

use super::c01::POOL;
use crate::ctx::{guard, Ctx};
use crate::drive;
use crate::model::{Facts, Mode, RefOnt};
use crate::space::{all_dags, Dag};
use hpo::annotations::AnnotationId;
use hpo::similarity::{Builtins, Distance, Similarity};
use hpo::term::InformationContentKind;
use hpo::Ontology;
use serde_json::json;
use std::collections::BTreeMap;

type V = Option<(String, String, String)>;

fn check_dag(ont: &Ontology, r: &RefOnt) -> V {
    let ids: Vec<u32> = r.terms.keys().copied().collect();
    check_dag_ids(ont, r, &ids)
}

/// all ordered pairs over `ids` (a subset of the terms for very large shapes)
fn check_dag_ids(ont: &Ontology, r: &RefOnt, ids: &[u32]) -> V {
    check_dag_sel(ont, r, ids, true)
}

/// `term_to_term = false`: only the to-ancestor queries (the library's term-to-term distance costs
/// |common ancestors| x depth per pair, prohibitive on chains of thousands of terms)
fn check_dag_sel(ont: &Ontology, r: &RefOnt, ids: &[u32], term_to_term: bool) -> V {
    let ids: Vec<u32> = ids.to_vec();
    let up: BTreeMap<u32, BTreeMap<u32, usize>> = ids.iter().map(|i| (*i, r.up_distances(*i))).collect();
    let v = |site: &str, sig: &str, det: String| Some((site.to_string(), sig.to_string(), det));
    for (ia, &a) in ids.iter().enumerate() {
        for (ib, &b) in ids.iter().enumerate() {
            let (ta, tb) = (ont.hpo(a).unwrap(), ont.hpo(b).unwrap());
            // on every other pair the PATH queries are asked first (a query must not depend on which query was
            // asked before); their answers are kept and held to the same demands as the ones obtained in the usual order
            let early = if (ia + ib) % 2 == 1 {
                Some((ta.path_to_ancestor(&tb).map(|p| p.iter().map(|x| x.as_u32()).collect::<Vec<u32>>()), if a != b && term_to_term { ta.path_to_term(&tb).map(|p| p.iter().map(|x| x.as_u32()).collect::<Vec<u32>>()) } else { None }))
            } else {
                None
            };
            // --- to ancestor (a term is not its own ancestor: what the two functions answer for (t, t) is not
            // fixed by the property - they are called, but no answer is demanded)
            let want_anc = up[&a].get(&b).copied();
            let got = ta.distance_to_ancestor(&tb);
            if a != b && got != want_anc {
                return v("HpoTerm::distance_to_ancestor", "not the length of a shortest chain of parent links", format!("{a}.distance_to_ancestor({b}) = {got:?} expected {want_anc:?}"));
            }
            let path = ta.path_to_ancestor(&tb).map(|p| p.iter().map(|x| x.as_u32()).collect::<Vec<u32>>());
            // the answer given before the distance query and the one given after it are each held to the statement
            // (with ties several shortest chains exist: WHICH one is returned may differ from call to call, so the
            // two answers are not compared with each other beyond that)
            let asked: Vec<(&Option<Vec<u32>>, &str)> = match &early {
                Some((ep, _)) => vec![(ep, " (asked before distance_to_ancestor)"), (&path, "")],
                None => vec![(&path, "")],
            };
            for (path, when) in asked {
                if a == b {
                    break;
                }
                match (path, want_anc) {
                    (None, None) => {}
                    (Some(p), Some(d)) => {
                        if p.len() != d {
                            return v("HpoTerm::path_to_ancestor", "path is not of minimal length", format!("{a}.path_to_ancestor({b}){when} = {p:?} but the shortest chain has {d} links"));
                        }
                        let mut prev = a;
                        for x in p {
                            if !r.terms[&prev].parents.contains(x) {
                                return v("HpoTerm::path_to_ancestor", "path is not a chain of direct parent links", format!("{a}.path_to_ancestor({b}){when} = {p:?}: {x} is not a parent of {prev}"));
                            }
                            prev = *x;
                        }
                        if prev != b {
                            return v("HpoTerm::path_to_ancestor", "path does not end in the ancestor", format!("{a}.path_to_ancestor({b}){when} = {p:?}"));
                        }
                    }
                    (p, w) => return v("HpoTerm::path_to_ancestor", "present/absent for the wrong terms", format!("{a}.path_to_ancestor({b}){when} = {p:?} expected distance {w:?}")),
                }
            }
            if !term_to_term {
                continue;
            }
            // --- term to term
            let want = r.distance(a, b);
            let got = ta.distance_to_term(&tb);
            if got != want {
                return v("HpoTerm::distance_to_term", "not the minimum over common ancestors of the summed upward distances", format!("{a}.distance_to_term({b}) = {got:?} expected {want:?}"));
            }
            let back = tb.distance_to_term(&ta);
            if back != got {
                return v("HpoTerm::distance_to_term", "not symmetric", format!("{a}->{b} = {got:?}, {b}->{a} = {back:?}"));
            }
            if a != b {
                let path = ta.path_to_term(&tb).map(|p| p.iter().map(|x| x.as_u32()).collect::<Vec<u32>>());
                // several shortest walks may exist: the answer given before the distance query and the one given
                // after it are each held to the statement, not compared with each other
                let asked: Vec<(&Option<Vec<u32>>, &str)> = match &early {
                    Some((_, ep)) => vec![(ep, " (asked before distance_to_term)"), (&path, "")],
                    None => vec![(&path, "")],
                };
                for (path, when) in asked {
                    match (path, want) {
                        (None, None) => {}
                        (Some(p), Some(d)) => {
                            let mut prev = a;
                            for x in p {
                                let t = &r.terms[&prev];
                                if !t.parents.contains(x) && !t.children.contains(x) {
                                    return v("HpoTerm::path_to_term", "path is not a walk along parent/child links", format!("{a}.path_to_term({b}){when} = {p:?}: {prev} and {x} are not linked"));
                                }
                                prev = *x;
                            }
                            if prev != b {
                                return v("HpoTerm::path_to_term", "path does not end in the second term", format!("{a}.path_to_term({b}){when} = {p:?}"));
                            }
                            if p.len() != d {
                                return v("HpoTerm::path_to_term", "path length differs from distance_to_term", format!("{a}.path_to_term({b}){when} = {p:?} ({} steps) but distance is {d}", p.len()));
                            }
                        }
                        (p, w) => return v("HpoTerm::path_to_term", "present/absent inconsistently with the distance", format!("{a}.path_to_term({b}){when} = {p:?}, distance {w:?}")),
                    }
                }
            }
            // --- Distance similarity
            let want_sim = want.map_or(0.0f32, |d| 1.0 / (d as f32 + 1.0));
            for (site, got) in [
                ("Distance::calculate", Distance::new().calculate(&ta, &tb)),
                ("Builtins::Distance", Builtins::Distance(InformationContentKind::Omim).calculate(&ta, &tb)),
                ("HpoTerm::similarity_score(Distance)", ta.similarity_score(&tb, &Distance::new())),
            ] {
                // d + 1 is exact in f32 (d < 2^24) and one division is correctly rounded in f32 as in f64: every
                // evaluation of 1/(d+1) lies within an ulp or two of want_sim, so the band is RELATIVE (an absolute
                // 1e-6 would admit 1/(d+2) for d >= 999 and any rounding to six decimals); for terms without a
                // common ancestor the value is 0 exactly (no formula is evaluated there)
                let ok = match want {
                    None => got == 0.0,
                    Some(_) => (got - want_sim).abs() <= 2.0 * f32::EPSILON * want_sim,
                };
                if !ok {
                    return v(site, "Distance similarity is not 1/(d+1)", format!("{a},{b}: {got} expected {want_sim}"));
                }
            }
        }
    }
    None
}

fn nontrivial(d: &Dag) -> bool {
    // some ancestor is reachable by chains of different length, or a non-ancestor pair shares an ancestor
    d.has_diamond() || d.has_depth2()
}

fn large(ctx: &mut Ctx) {
    let family = crate::props::common::large_family();
    ctx.space("large-structured/all-ordered-pairs", &format!("{} large shapes (chains up to 100, a deep chain of 300 with a shortcut, fans, binary tree, ladder with 2^8 routes, total order on 12 terms, joined chains) x all ordered pairs (more than 120 terms: all ordered pairs of ~30 selected terms)", family.len()));
    for (f, what) in &family {
        if !ctx.take() {
            continue;
        }
        ctx.state();
        ctx.nontrivial();
        let r = RefOnt::derive(f);
        let n = f.terms.len();
        ctx.transitions(f.n_steps() + (n * n * 7) as u64);
        ctx.execs((n * n) as u64);
        ctx.validateds((n * n) as u64);
        let Ok(ont) = drive::build(f, Mode::Minimal) else {
            ctx.violation("Builder", "[builder] construction fails on valid facts", json!({"shape": what}));
            continue;
        };
        // shapes with more than 120 terms: ordered pairs over selected terms (both ends, the 8-bit depth boundary, branch points)
        let sel: Vec<u32> = if n > 120 { crate::props::common::selected_positions(n).into_iter().map(|k| f.terms[k].id).collect() } else { f.terms.iter().map(|t| t.id).collect() };
        match guard(|| check_dag_ids(&ont, &r, &sel)) {
            Ok(None) => {}
            Ok(Some((site, sig, det))) => ctx.violation(&site, &format!("[large shape] {sig}"), json!({"shape": what, "n_terms": n, "difference": det})),
            Err(p) => ctx.violation("HpoTerm::path_to_term", "[large shape] panics", json!({"shape": what, "observed": p})),
        }
        ctx.sample(|| json!({"shape": what, "n_terms": n, "ordered_pairs": n * n}));
    }
}

/// Shapes the shared large family does not hold: (a) two long upward legs - two chains of `leg` terms below
/// HP:118 that meet only there, so that the walk between the two leaves has 2 x leg steps (both legs beyond 127
/// resp. 255, their sum beyond 255 resp. 511) - every deep shape of the shared family has ONE long leg; (b) two
/// terms with 35 and 34 direct parents out of 36 siblings: more than 30 pairwise incomparable common ancestors,
/// all at the same distance. Returns (facts, description, positions in `terms` to pair up; empty = all).
fn legs_and_fan() -> Vec<(Facts, String, Vec<usize>)> {
    let mut out = vec![];
    for leg in [200usize, 300] {
        for reversed in [false, true] {
            // positions: 0 = HP:1, 1 = HP:118, 2..2+leg = leg A from the top down, then leg B
            let id = |k: usize| -> u32 {
                match k {
                    0 => 1,
                    1 => 118,
                    _ => if reversed { 9000 - k as u32 } else { 1000 + k as u32 },
                }
            };
            let mut f = Facts::default();
            f.version = (2024, 2, 29);
            for k in 0..2 + 2 * leg {
                f.terms.push(Facts::term(id(k), &format!("N{k}")));
            }
            f.edges.push((118, 1));
            for l in 0..2 {
                for d in 0..leg {
                    let k = 2 + l * leg + d;
                    f.edges.push((id(k), if d == 0 { 118 } else { id(k - 1) }));
                }
            }
            // depths (1-based, below HP:118) worth pairing: the top of a leg, the 7- and 8-bit borders, the leaf
            let mut sel: Vec<usize> = vec![0, 1];
            for l in 0..2 {
                for d in [1usize, 2, 127, 128, 129, 199, 200, 255, 256, 257, leg - 1, leg] {
                    if d <= leg {
                        sel.push(2 + l * leg + d - 1);
                    }
                }
            }
            sel.sort_unstable();
            sel.dedup();
            out.push((f, format!("two chains of {leg} terms below HP:118 that meet only there{}", if reversed { " (descendants have smaller ids)" } else { "" }), sel));
        }
    }
    for reversed in [false, true] {
        let id = |k: usize| -> u32 { if reversed { 5000 - 7 * k as u32 } else { 10 + 3 * k as u32 } };
        let mut f = Facts::default();
        f.version = (2024, 2, 29);
        for k in 0..39 {
            f.terms.push(Facts::term(id(k), &format!("N{k}")));
        }
        for k in 1..=36 {
            f.edges.push((id(k), id(0)));
        }
        for p in 1..=35 {
            f.edges.push((id(37), id(p)));
        }
        for p in 3..=36 {
            f.edges.push((id(38), id(p)));
        }
        out.push((f, format!("fan: 36 siblings, two terms with 35 and 34 of them as direct parents (33 shared){}", if reversed { " (descendants have smaller ids)" } else { "" }), vec![]));
    }
    out
}

fn large_local(ctx: &mut Ctx) {
    let family = legs_and_fan();
    ctx.space("large-structured/two-long-legs+fan", &format!("{} shapes: two chains of 200 / 300 terms below HP:118 meeting only there (ordered pairs over ~24 selected terms: the roots and on each leg the depths 1, 2, 127..129, 199, 200, 255..257 and the leaf - walks of up to 600 steps with both legs beyond 255), 36 siblings with two terms below 35 and 34 of them (all ordered pairs; more than 30 incomparable common ancestors); both id directions", family.len()));
    for (f, what, sel) in &family {
        if !ctx.take() {
            continue;
        }
        ctx.state();
        ctx.nontrivial();
        let r = RefOnt::derive(f);
        let ids: Vec<u32> = if sel.is_empty() { f.terms.iter().map(|t| t.id).collect() } else { sel.iter().map(|k| f.terms[*k].id).collect() };
        let n = ids.len();
        ctx.transitions(f.n_steps() + (n * n * 7) as u64);
        ctx.execs((n * n) as u64);
        ctx.validateds((n * n) as u64);
        let Ok(ont) = drive::build(f, Mode::Minimal) else {
            ctx.violation("Builder", "[builder] construction fails on valid facts", json!({"shape": what}));
            continue;
        };
        match guard(|| check_dag_ids(&ont, &r, &ids)) {
            Ok(None) => {}
            Ok(Some((site, sig, det))) => ctx.violation(&site, &format!("[large shape] {sig}"), json!({"shape": what, "n_terms": f.terms.len(), "difference": det})),
            Err(p) => ctx.violation("HpoTerm::path_to_term", "[large shape] panics", json!({"shape": what, "observed": p})),
        }
        ctx.sample(|| json!({"shape": what, "n_terms": f.terms.len(), "ordered_pairs": n * n}));
    }
}

pub fn run(ctx: &mut Ctx) {
    ctx.rule = "case = one labelled DAG, all ordered pairs of its terms; distinct by construction; non-trivial = depth >= 2 or a diamond (several routes of possibly different length)".into();
    ctx.assumptions = vec![
        "acyclic graphs; Builder construction path (C01 establishes that the other paths build the same links)".into(),
        "what distance_to_ancestor / path_to_ancestor answer for (t, t) is not fixed by the statement (a term is not its own ancestor): called, not compared".into(),
        "with ties several shortest chains / walks exist: every returned path is held to the statement (valid links, right end, minimal length), two calls need not return the same one".into(),
    ];
    let max_n = if ctx.tier.thorough() { 6 } else { 5 };
    for n in 1..=max_n {
        let dags = all_dags(n);
        ctx.space(&format!("builder/D{n}/all-ordered-pairs"), &format!("{} labelled DAGs x {} ordered pairs x (distance/path to ancestor, distance/path to term, Distance similarity)", dags.len(), n * n));
        for d in &dags {
            if !ctx.take() {
                continue;
            }
            ctx.state();
            if nontrivial(d) {
                ctx.nontrivial();
            }
            // even case numbers use the spread id pool, odd ones consecutive ids (adjacent values)
            let f = if ctx.spaces.last().map(|s| s.1.cases % 2 == 0).unwrap_or(true) { Facts::from_dag(d, &POOL) } else { Facts::from_dag(d, &super::c01::POOL_ADJACENT) };
            let r = RefOnt::derive(&f);
            ctx.transitions(f.n_steps() + (n * n * 7) as u64);
            ctx.execs((n * n) as u64);
            ctx.validateds((n * n) as u64);
            let Ok(ont) = drive::build(&f, Mode::Minimal) else {
                ctx.violation("Builder", "[builder] construction fails on valid facts", json!({"case": f.to_json()}));
                continue;
            };
            match guard(|| check_dag(&ont, &r)) {
                Ok(None) => {}
                Ok(Some((site, sig, det))) => ctx.violation(&site, &sig, json!({"facts": f.to_json(), "dag": d.describe(), "difference": det, "rust": f.to_rust(false)})),
                Err(p) => ctx.violation("HpoTerm::path_to_term", "panics", json!({"facts": f.to_json(), "dag": d.describe(), "observed": p})),
            }
            ctx.outcome(crate::ctx::fnv_str(&d.describe()) % 4096);
            ctx.sample(|| json!({"dag": d.describe(), "ids": &POOL[..n], "ordered_pairs": n * n}));
        }
    }
    // ---- six terms: all 32 768 DAGs whose links respect the node order, ids ascending and descending with the
    // depth (the full labelled D(6) is the thorough tier; some algorithmic slips - a search that stops at the
    // first level where two frontiers meet - need six terms to show)
    if !ctx.tier.thorough() {
        let dags = crate::space::topo_dags(6);
        ctx.space("builder/T6/all-ordered-pairs", &format!("{} DAGs on 6 terms whose links respect the node order x (ids ascending | descending with depth) x 36 ordered pairs", dags.len()));
        for (di, d) in dags.iter().enumerate() {
            if !ctx.take() {
                continue;
            }
            ctx.state();
            if nontrivial(d) {
                ctx.nontrivial();
            }
            let pool: [u32; 6] = if di % 2 == 0 { [1, 7, 118, 4000, 77_777, 9_999_999] } else { [9_999_999, 77_777, 4000, 118, 7, 1] };
            let f = Facts::from_dag(d, &pool);
            let r = RefOnt::derive(&f);
            ctx.transitions(f.n_steps() + 36 * 7);
            ctx.execs(36);
            ctx.validateds(36);
            let Ok(ont) = drive::build(&f, Mode::Minimal) else {
                ctx.violation("Builder", "[builder] construction fails on valid facts", json!({"case": f.to_json()}));
                continue;
            };
            match guard(|| check_dag(&ont, &r)) {
                Ok(None) => {}
                Ok(Some((site, sig, det))) => ctx.violation(&site, &sig, json!({"facts": f.to_json(), "dag": d.describe(), "difference": det, "rust": f.to_rust(false)})),
                Err(p) => ctx.violation("HpoTerm::path_to_term", "panics", json!({"facts": f.to_json(), "dag": d.describe(), "observed": p})),
            }
            ctx.sample(|| json!({"dag": d.describe(), "ids": pool}));
        }
    }
    large(ctx);
    large_local(ctx);
    // ---- very deep shapes (beyond 512 / 1000 / 1024 / 2048 levels, 2^14 routes): selected pairs
    {
        let family = crate::props::common::very_deep_family();
        ctx.space("very-deep/selected-pairs", &format!("{} shapes (chains of 1100 and 2100 terms with a shortcut, a ladder of 14 levels) x to-ancestor queries on all ordered pairs of ~25 selected terms (both ends, around 256, 512, 1000, 1024, 2048, the branch points; 6 terms on the longer chain) and term-to-term queries on 3..6 of them (the library's term-to-term distance is cubic on a chain)", family.len()));
        for (f, what) in &family {
            if !ctx.take() {
                continue;
            }
            ctx.state();
            ctx.nontrivial();
            let r = RefOnt::derive(f);
            let n = f.terms.len();
            // the library's distance_to_term costs |common ancestors| x depth per pair: the to-ancestor queries run on
            // all selected terms, the term-to-term queries on a handful
            let sel: Vec<u32> = if n > 2000 {
                [0usize, 5, 2048, 2049, n - 2, n - 1].iter().map(|k| f.terms[*k].id).collect()
            } else if n > 100 {
                crate::props::common::very_deep_positions(n).into_iter().map(|k| f.terms[k].id).collect()
            } else {
                [0usize, 1, 2, 3, n / 2, n - 3, n - 2, n - 1].iter().map(|k| f.terms[*k].id).collect()
            };
            let few: Vec<u32> = if n > 2000 { [5usize, n - 1].iter().map(|k| f.terms[*k].id).collect() } else if n > 100 { [0usize, 5, 513, 1025, n - 2, n - 1].iter().map(|k| f.terms[*k].id).collect() } else { sel.clone() };
            ctx.transitions(f.n_steps() + (sel.len() * sel.len() * 7) as u64);
            ctx.execs((sel.len() * sel.len()) as u64);
            ctx.validateds((sel.len() * sel.len()) as u64);
            let Ok(ont) = drive::build(f, Mode::Minimal) else {
                ctx.violation("Builder", "[builder] construction fails on valid facts", json!({"shape": what}));
                continue;
            };
            match guard(|| check_dag_sel(&ont, &r, &sel, false).or_else(|| check_dag_sel(&ont, &r, &few, true))) {
                Ok(None) => {}
                Ok(Some((site, sig, det))) => ctx.violation(&site, &format!("[very deep shape] {sig}"), json!({"shape": what, "n_terms": n, "difference": det})),
                Err(p) => ctx.violation("HpoTerm::path_to_term", "[very deep shape] panics", json!({"shape": what, "observed": p})),
            }
            ctx.sample(|| json!({"shape": what, "n_terms": n, "selected_terms": sel.len()}));
        }
    }
    // ---- decoded graphs whose terms are flagged obsolete / replaced while still linked: a walk does not look at flags
    for n in 2..=4usize {
        let dags = all_dags(n);
        let pool = super::c01::POOL_ROOTS;
        ctx.space(&format!("binary/D{n}/flagged-terms"), &format!("{} labelled DAGs over {:?} decoded from a v3 file x (each single term | all terms) flagged obsolete and replaced by the next term x all ordered pairs", dags.len(), &pool[..n]));
        for d in &dags {
            if !ctx.take() {
                continue;
            }
            ctx.state();
            if nontrivial(d) {
                ctx.nontrivial();
            }
            let mut base = Facts::from_dag(d, &pool);
            base.version = (2024, 2, 29);
            let ids: Vec<u32> = base.terms.iter().map(|t| t.id).collect();
            for k in 0..=n {
                let mut f = base.clone();
                for i in 0..n {
                    if i == k || k == n {
                        f.terms[i].obsolete = true;
                        f.terms[i].replacement = Some(ids[(i + 1) % n]);
                    }
                }
                let r = RefOnt::derive(&f);
                ctx.transitions(f.n_steps() + (n * n * 7) as u64);
                ctx.execs((n * n) as u64);
                ctx.validateds((n * n) as u64);
                let Ok(Ok(ont)) = drive::from_bytes(&crate::encode::encode(&f, &crate::encode::EncOpts::v(3))) else {
                    ctx.violation("Ontology::from_bytes", "[binary v3] cannot decode a file laid out as documented", json!({"case": f.to_json()}));
                    continue;
                };
                match guard(|| check_dag(&ont, &r)) {
                    Ok(None) => {}
                    Ok(Some((site, sig, det))) => ctx.violation(&site, &format!("[flagged terms] {sig}"), json!({"facts": f.to_json(), "dag": d.describe(), "difference": det})),
                    Err(p) => ctx.violation("HpoTerm::path_to_term", "[flagged terms] panics", json!({"facts": f.to_json(), "dag": d.describe(), "observed": p})),
                }
            }
            ctx.sample(|| json!({"dag": d.describe(), "ids": &pool[..n], "flag patterns": n + 1}));
        }
    }
    // ---- sequences of ontologies built one after the other at the same address
    super::common::ontology_sequences(ctx, "builder", Mode::Minimal, &mut |ont, r| check_dag(ont, r));
}
