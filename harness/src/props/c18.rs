//! C18 - ontology comparison reports exactly the differences.

use crate::ctx::{guard, Ctx};
use crate::drive;
use crate::encode::{self, EncOpts};
use crate::model::{Facts, Kind, RefOnt, RefRec, RefTerm, KINDS};
use hpo::annotations::{AnnotationId, Disease};
use hpo::comparison::{AnnotationDelta, HpoTermDelta};
use hpo::Ontology;
use serde_json::{json, Value};
use std::collections::{BTreeMap, BTreeSet};

/// One edit of a fact set (applied to the canonical model form). Returns None if not applicable.
#[derive(Clone, Debug, PartialEq, Eq)]
enum Edit {
    /// variant: 0 append, 1 case of the first letter flipped, 2 trailing blank, 3 last character replaced (same length), 4 empty
    RenameTerm(u32, u8),
    AddParent(u32, u32),
    RemoveParent(u32, u32),
    FlipObsolete(u32),
    SetReplacement(u32, Option<u32>),
    AddTerm(u32, Option<u32>),
    RemoveTerm(u32),
    RenameRecord(Kind, u32, u8),
    AddAnnotation(Kind, u32, u32),
    RemoveAnnotation(Kind, u32, u32),
    AddRecord(Kind, u32, Option<u32>),
    RemoveRecord(Kind, u32),
}

/// the rename variants: small changes a lenient comparison would overlook
fn rename(name: &mut String, variant: u8) {
    match variant {
        0 => name.push_str(" (renamed)"),
        1 => {
            // flip the case of the first ASCII letter (or prepend one)
            match name.char_indices().find(|(_, c)| c.is_ascii_alphabetic()) {
                Some((i, c)) => {
                    let f = if c.is_ascii_uppercase() { c.to_ascii_lowercase() } else { c.to_ascii_uppercase() };
                    name.replace_range(i..i + 1, &f.to_string());
                }
                None => name.insert(0, 'x'),
            }
        }
        2 => name.push(' '),
        3 => {
            // same length, last character replaced
            match name.pop() {
                Some(c) => name.push(if c == 'z' { 'y' } else { 'z' }),
                None => name.push('z'),
            }
        }
        _ => {
            if name.is_empty() {
                name.push('e');
            } else {
                name.clear();
            }
        }
    }
}

fn reclose(r: &mut RefOnt) {
    // rebuild children / ancestors / inherited sets from the direct facts
    let f = r.to_facts();
    *r = RefOnt::derive(&f);
}

fn applicable_edits(r: &RefOnt) -> Vec<Edit> {
    let mut v = vec![];
    let ids: Vec<u32> = r.terms.keys().copied().collect();
    for &t in &ids {
        v.push(Edit::RenameTerm(t, 0));
        if Some(&t) == ids.last() {
            for variant in 1..=4u8 {
                v.push(Edit::RenameTerm(t, variant));
            }
        }
        v.push(Edit::FlipObsolete(t));
        for &p in &ids {
            if p == t {
                continue;
            }
            if r.terms[&t].parents.contains(&p) {
                if !(t == 118 && p == 1) {
                    v.push(Edit::RemoveParent(t, p));
                }
            } else if !r.terms[&p].ancestors.contains(&t) {
                v.push(Edit::AddParent(t, p));
            }
        }
        // replacement: none / first other term / second other term
        let others: Vec<u32> = ids.iter().copied().filter(|o| *o != t).take(2).collect();
        for target in std::iter::once(None).chain(others.into_iter().map(Some)) {
            if r.terms[&t].replacement != target {
                v.push(Edit::SetReplacement(t, target));
            }
        }
        if t != 1 && t != 118 {
            v.push(Edit::RemoveTerm(t));
        }
    }
    for new_id in [999u32, 3] {
        if !r.terms.contains_key(&new_id) {
            v.push(Edit::AddTerm(new_id, Some(118)));
            v.push(Edit::AddTerm(new_id, None));
        }
    }
    for (k, kind) in KINDS.iter().enumerate() {
        for (id, rec) in &r.recs[k] {
            v.push(Edit::RenameRecord(*kind, *id, 0));
            if Some(id) == r.recs[k].keys().next() {
                for variant in 1..=4u8 {
                    v.push(Edit::RenameRecord(*kind, *id, variant));
                }
            }
            v.push(Edit::RemoveRecord(*kind, *id));
            for &t in &ids {
                if rec.terms.contains(&t) {
                    v.push(Edit::RemoveAnnotation(*kind, *id, t));
                } else {
                    v.push(Edit::AddAnnotation(*kind, *id, t));
                }
            }
        }
        // a new record whose numeric id already belongs to a record of ANOTHER kind
        for other in 0..3 {
            if other != k {
                if let Some(shared) = r.recs[other].keys().next() {
                    if !r.recs[k].contains_key(shared) {
                        v.push(Edit::AddRecord(*kind, *shared, Some(ids[ids.len() - 1])));
                    }
                }
            }
        }
        let new_id = 4242 + k as u32;
        if !r.recs[k].contains_key(&new_id) {
            v.push(Edit::AddRecord(*kind, new_id, Some(ids[ids.len() - 1])));
            v.push(Edit::AddRecord(*kind, new_id, None));
        }
        // a new record whose id lies BELOW every id of its kind (4242 is above every gene id but below the OMIM ids)
        if !r.recs[k].contains_key(&1) {
            v.push(Edit::AddRecord(*kind, 1, Some(ids[ids.len() - 1])));
        }
    }
    v
}

fn apply(r: &RefOnt, e: &Edit) -> RefOnt {
    let mut n = r.clone();
    match e {
        Edit::RenameTerm(t, variant) => rename(&mut n.terms.get_mut(t).unwrap().name, *variant),
        Edit::AddParent(t, p) => {
            n.terms.get_mut(t).unwrap().parents.insert(*p);
        }
        Edit::RemoveParent(t, p) => {
            n.terms.get_mut(t).unwrap().parents.remove(p);
        }
        Edit::FlipObsolete(t) => {
            let x = n.terms.get_mut(t).unwrap();
            x.obsolete = !x.obsolete;
        }
        Edit::SetReplacement(t, target) => n.terms.get_mut(t).unwrap().replacement = *target,
        Edit::AddTerm(id, parent) => {
            let mut t = RefTerm { name: format!("New term {id}"), ..Default::default() };
            if let Some(p) = parent {
                t.parents.insert(*p);
            }
            n.terms.insert(*id, t);
        }
        Edit::RemoveTerm(id) => {
            n.terms.remove(id);
            for t in n.terms.values_mut() {
                t.parents.remove(id);
                if t.replacement == Some(*id) {
                    t.replacement = None;
                }
            }
            for k in 0..3 {
                for rec in n.recs[k].values_mut() {
                    rec.terms.remove(id);
                }
            }
        }
        Edit::RenameRecord(k, id, variant) => rename(&mut n.recs[k.idx()].get_mut(id).unwrap().name, *variant),
        Edit::AddAnnotation(k, id, t) => {
            n.recs[k.idx()].get_mut(id).unwrap().terms.insert(*t);
        }
        Edit::RemoveAnnotation(k, id, t) => {
            n.recs[k.idx()].get_mut(id).unwrap().terms.remove(t);
        }
        Edit::AddRecord(k, id, t) => {
            n.recs[k.idx()].insert(*id, RefRec { name: format!("New record {id}"), terms: t.iter().copied().collect() });
        }
        Edit::RemoveRecord(k, id) => {
            n.recs[k.idx()].remove(id);
        }
    }
    reclose(&mut n);
    n
}

/// the same ontology through the Builder (no flags expressible there), annotation facts descendant-first
/// (None without a word for facts with flags; a Builder that fails on flag-free facts is reported - or counted, when
/// two records of a kind share a name: unique names are a policy a Builder may have)
fn build_via_builder(ctx: &mut Ctx, r: &RefOnt) -> Option<Ontology> {
    if r.terms.values().any(|t| t.obsolete || t.replacement.is_some()) {
        return None;
    }
    let mut f = r.to_facts();
    // supply deeper terms' annotations first (number of ancestors descending), then by id
    f.anns.sort_by_key(|a| (std::cmp::Reverse(a.term.map(|t| r.terms[&t].ancestors.len()).unwrap_or(0)), a.kind, a.id));
    match drive::build(&f, crate::model::Mode::Defaults) {
        Ok(o) => Some(o),
        Err(e) => {
            let shared_name = r.recs.iter().any(|m| {
                let mut names = BTreeSet::new();
                m.values().any(|x| !names.insert(x.name.as_str()))
            });
            if shared_name && e.starts_with("annotate_") {
                ctx.bump("refused: Builder-built twin of a pair with records sharing a name", 1);
            } else {
                ctx.violation("Builder", "[builder] construction fails on valid facts", json!({"facts": f.to_json(), "observed": e}));
            }
            None
        }
    }
}

/// the OLD side of a pair: a refusal of the valid file is reported (as compare_pair does for the new side) - it
/// would otherwise leave every pair of that base without a comparison
fn build_old(ctx: &mut Ctx, r: &RefOnt) -> Option<Ontology> {
    match build(r) {
        Ok(o) => Some(o),
        Err(e) => {
            ctx.violation("Ontology::from_bytes", "rejects a file laid out as documented", json!({"facts": r.to_facts().to_json(), "observed": e, "side": "old"}));
            None
        }
    }
}

fn build(r: &RefOnt) -> Result<Ontology, String> {
    let f = r.to_facts();
    match drive::from_bytes(&encode::encode(&f, &EncOpts::v(3))) {
        Ok(Ok(o)) => Ok(o),
        Ok(Err(e)) => Err(e),
        Err(p) => Err(format!("panic: {p}")),
    }
}

/// The same facts with every list written in descending order: term ids inside gene / disease records,
/// parent ids inside parent records, and the records themselves (the layout prescribes no order).
fn build_descending(r: &RefOnt) -> Result<Ontology, String> {
    let mut f = r.to_facts();
    f.terms.reverse();
    f.edges.reverse();
    f.anns.reverse();
    match drive::from_bytes(&encode::encode(&f, &EncOpts::list_order(3))) {
        Ok(Ok(o)) => Ok(o),
        Ok(Err(e)) => Err(e),
        Err(p) => Err(format!("panic: {p}")),
    }
}

/// canonical rendering of a Comparison
#[derive(Debug, PartialEq, Eq, Clone, Default)]
struct Report {
    added_terms: BTreeSet<u32>,
    removed_terms: BTreeSet<u32>,
    /// id -> (name change, added parents, removed parents, obsolete change, replacement change)
    changed_terms: BTreeMap<u32, (Option<(String, String)>, Vec<u32>, Vec<u32>, Option<(bool, bool)>, Option<(Option<u32>, Option<u32>)>)>,
    added_recs: [BTreeSet<u32>; 3],
    removed_recs: [BTreeSet<u32>; 3],
    /// id string -> (name change, added terms, removed terms, n_terms)
    changed_recs: [BTreeMap<String, (Option<(String, String)>, Vec<u32>, Vec<u32>, (usize, usize))>; 3],
    /// indices of the twelve lists (added / removed / changed x terms, genes, omim, orpha) that hold an entry twice
    duplicates: Vec<usize>,
}

fn sorted(v: Option<&Vec<hpo::HpoTermId>>) -> Vec<u32> {
    let mut x: Vec<u32> = v.map(|v| v.iter().map(|i| i.as_u32()).collect()).unwrap_or_default();
    x.sort_unstable();
    x
}

fn term_delta(d: &HpoTermDelta) -> (u32, (Option<(String, String)>, Vec<u32>, Vec<u32>, Option<(bool, bool)>, Option<(Option<u32>, Option<u32>)>)) {
    (
        d.id().as_u32(),
        (d.changed_name().cloned(), sorted(d.added_parents()), sorted(d.removed_parents()), d.changed_obsolete(), d.changed_replacement().map(|(a, b)| (a.map(|x| x.as_u32()), b.map(|x| x.as_u32())))),
    )
}

fn rec_delta(d: &AnnotationDelta, in_both: &dyn Fn(u32) -> bool) -> (String, (Option<(String, String)>, Vec<u32>, Vec<u32>, (usize, usize))) {
    // the numeric id of the record, however the textual id is rendered (its format is not part of the property:
    // "600001", "OMIM:600001", "600001 (OMIM)" ...): the first run of digits that is the id of a record of this kind
    // present in both ontologies - a changed record is one - else the last run
    let text = d.id().to_string();
    let runs: Vec<&str> = text.split(|c: char| !c.is_ascii_digit()).filter(|r| !r.is_empty()).collect();
    let id = runs.iter().filter_map(|r| r.parse::<u32>().ok()).find(|n| in_both(*n)).map(|n| n.to_string()).unwrap_or_else(|| runs.last().map(|r| r.trim_start_matches('0').to_string()).unwrap_or_default());
    (id, (d.changed_name().cloned(), sorted(d.added_terms()), sorted(d.removed_terms()), d.n_terms()))
}

fn observe(a: &Ontology, b: &Ontology) -> Report {
    let c = a.compare(b);
    let mut r = Report::default();
    r.added_terms = c.added_hpo_terms().iter().map(|t| t.id().as_u32()).collect();
    r.removed_terms = c.removed_hpo_terms().iter().map(|t| t.id().as_u32()).collect();
    r.changed_terms = c.changed_hpo_terms().iter().map(term_delta).collect();
    r.added_recs[0] = c.added_genes().iter().map(|g| g.id().as_u32()).collect();
    r.removed_recs[0] = c.removed_genes().iter().map(|g| g.id().as_u32()).collect();
    r.changed_recs[0] = c.changed_genes().iter().map(|d| rec_delta(d, &|id| a.gene(&id.into()).is_some() && b.gene(&id.into()).is_some())).collect();
    r.added_recs[1] = c.added_omim_diseases().iter().map(|g| g.id().as_u32()).collect();
    r.removed_recs[1] = c.removed_omim_diseases().iter().map(|g| g.id().as_u32()).collect();
    r.changed_recs[1] = c.changed_omim_diseases().iter().map(|d| rec_delta(d, &|id| a.omim_disease(&id.into()).is_some() && b.omim_disease(&id.into()).is_some())).collect();
    r.added_recs[2] = c.added_orpha_diseases().iter().map(|g| g.id().as_u32()).collect();
    r.removed_recs[2] = c.removed_orpha_diseases().iter().map(|g| g.id().as_u32()).collect();
    r.changed_recs[2] = c.changed_orpha_diseases().iter().map(|d| rec_delta(d, &|id| a.orpha_disease(&id.into()).is_some() && b.orpha_disease(&id.into()).is_some())).collect();
    // the lists themselves must not contain an entry twice ("exactly the terms ...")
    let listed = [
        c.added_hpo_terms().len(), c.removed_hpo_terms().len(), c.changed_hpo_terms().len(),
        c.added_genes().len(), c.removed_genes().len(), c.changed_genes().len(),
        c.added_omim_diseases().len(), c.removed_omim_diseases().len(), c.changed_omim_diseases().len(),
        c.added_orpha_diseases().len(), c.removed_orpha_diseases().len(), c.changed_orpha_diseases().len(),
    ];
    let distinct = [
        r.added_terms.len(), r.removed_terms.len(), r.changed_terms.len(),
        r.added_recs[0].len(), r.removed_recs[0].len(), r.changed_recs[0].len(),
        r.added_recs[1].len(), r.removed_recs[1].len(), r.changed_recs[1].len(),
        r.added_recs[2].len(), r.removed_recs[2].len(), r.changed_recs[2].len(),
    ];
    r.duplicates = (0..12).filter(|i| listed[*i] != distinct[*i]).collect();
    r
}

fn rec_id_string(_k: Kind, id: u32) -> String {
    format!("{id}")
}

/// the diff of two fact sets, computed by the model
fn expected(a: &RefOnt, b: &RefOnt) -> Report {
    let mut r = Report::default();
    r.added_terms = b.terms.keys().filter(|k| !a.terms.contains_key(k)).copied().collect();
    r.removed_terms = a.terms.keys().filter(|k| !b.terms.contains_key(k)).copied().collect();
    for (id, ta) in &a.terms {
        if let Some(tb) = b.terms.get(id) {
            let name = if ta.name != tb.name { Some((ta.name.clone(), tb.name.clone())) } else { None };
            let added: Vec<u32> = tb.parents.difference(&ta.parents).copied().collect();
            let removed: Vec<u32> = ta.parents.difference(&tb.parents).copied().collect();
            let obs = if ta.obsolete != tb.obsolete { Some((ta.obsolete, tb.obsolete)) } else { None };
            let rep = if ta.replacement != tb.replacement { Some((ta.replacement, tb.replacement)) } else { None };
            if name.is_some() || !added.is_empty() || !removed.is_empty() || obs.is_some() || rep.is_some() {
                r.changed_terms.insert(*id, (name, added, removed, obs, rep));
            }
        }
    }
    for (k, kind) in KINDS.iter().enumerate() {
        r.added_recs[k] = b.recs[k].keys().filter(|x| !a.recs[k].contains_key(x)).copied().collect();
        r.removed_recs[k] = a.recs[k].keys().filter(|x| !b.recs[k].contains_key(x)).copied().collect();
        for (id, ra) in &a.recs[k] {
            if let Some(rb) = b.recs[k].get(id) {
                let name = if ra.name != rb.name { Some((ra.name.clone(), rb.name.clone())) } else { None };
                let added: Vec<u32> = rb.terms.difference(&ra.terms).copied().collect();
                let removed: Vec<u32> = ra.terms.difference(&rb.terms).copied().collect();
                if name.is_some() || !added.is_empty() || !removed.is_empty() {
                    r.changed_recs[k].insert(rec_id_string(*kind, *id), (name, added, removed, (ra.terms.len(), rb.terms.len())));
                }
            }
        }
    }
    r
}

fn first_difference(got: &Report, want: &Report) -> Option<(String, String, String)> {
    let d = |site: &str, sig: &str, det: String| Some((site.to_string(), sig.to_string(), det));
    if !got.duplicates.is_empty() {
        return d("Ontology::compare", "a list of the comparison holds the same entry twice", format!("lists (0..12 = added / removed / changed x terms, genes, omim, orpha): {:?}", got.duplicates));
    }
    if got.added_terms != want.added_terms {
        return d("Comparison::added_hpo_terms", "not exactly the terms present only in the new ontology", format!("observed {:?} expected {:?}", got.added_terms, want.added_terms));
    }
    if got.removed_terms != want.removed_terms {
        return d("Comparison::removed_hpo_terms", "not exactly the terms present only in the old ontology", format!("observed {:?} expected {:?}", got.removed_terms, want.removed_terms));
    }
    if got.changed_terms != want.changed_terms {
        let gk: Vec<&u32> = got.changed_terms.keys().collect();
        let wk: Vec<&u32> = want.changed_terms.keys().collect();
        let sig = if gk != wk { "set of changed terms is wrong" } else { "a term delta (name / added or removed parents / obsolete / replacement) is wrong" };
        return d("Comparison::changed_hpo_terms", sig, format!("observed {:?} expected {:?}", got.changed_terms, want.changed_terms));
    }
    let names = [["Comparison::added_genes", "Comparison::removed_genes", "Comparison::changed_genes"], ["Comparison::added_omim_diseases", "Comparison::removed_omim_diseases", "Comparison::changed_omim_diseases"], ["Comparison::added_orpha_diseases", "Comparison::removed_orpha_diseases", "Comparison::changed_orpha_diseases"]];
    for k in 0..3 {
        if got.added_recs[k] != want.added_recs[k] {
            return d(names[k][0], "not exactly the records present only in the new ontology", format!("observed {:?} expected {:?}", got.added_recs[k], want.added_recs[k]));
        }
        if got.removed_recs[k] != want.removed_recs[k] {
            return d(names[k][1], "not exactly the records present only in the old ontology", format!("observed {:?} expected {:?}", got.removed_recs[k], want.removed_recs[k]));
        }
        if got.changed_recs[k] != want.changed_recs[k] {
            let gk: Vec<&String> = got.changed_recs[k].keys().collect();
            let wk: Vec<&String> = want.changed_recs[k].keys().collect();
            let sig = if gk != wk { "set of changed records is wrong" } else { "an annotation delta (name / added or removed terms / n_terms) is wrong" };
            return d(names[k][2], sig, format!("observed {:?} expected {:?}", got.changed_recs[k], want.changed_recs[k]));
        }
    }
    None
}

fn bases() -> Vec<(RefOnt, &'static str)> {
    let t = |id: u32, name: &str| Facts::term(id, name);
    let mut out = vec![];
    // 1. chain with records of all kinds
    let mut f = Facts { version: (2024, 2, 29), ..Default::default() };
    f.terms = vec![t(1, "All"), t(118, "Phenotypic abnormality"), t(200, "A"), t(300, "B")];
    f.edges = vec![(118, 1), (200, 118), (300, 200)];
    f.anns = vec![Facts::ann(Kind::Gene, 11, "GENE1", Some(300)), Facts::ann(Kind::Gene, 11, "GENE1", Some(118)), Facts::ann(Kind::Gene, 22, "GENE2", None), Facts::ann(Kind::Omim, 600_001, "Disease one", Some(200)), Facts::ann(Kind::Orpha, 77, "Orpha one", Some(300))];
    out.push((RefOnt::derive(&f), "chain with all record kinds"));
    // 2. diamond with a modifier branch
    let mut f = Facts { version: (2024, 2, 29), ..Default::default() };
    f.terms = vec![t(1, "All"), t(5, "Mode of inheritance"), t(118, "Phenotypic abnormality"), t(200, "A"), t(201, "B"), t(300, "C")];
    f.edges = vec![(118, 1), (5, 1), (200, 118), (201, 118), (300, 200), (300, 201)];
    f.anns = vec![Facts::ann(Kind::Gene, 11, "GENE1", Some(300)), Facts::ann(Kind::Omim, 600_001, "Disease one", Some(5)), Facts::ann(Kind::Omim, 600_001, "Disease one", Some(201))];
    out.push((RefOnt::derive(&f), "diamond with modifier branch"));
    // 3. obsolete / replaced terms
    let mut f = Facts { version: (2024, 2, 29), ..Default::default() };
    f.terms = vec![t(1, "All"), t(118, "Phenotypic abnormality"), t(200, "A"), t(666, "obsolete Foo")];
    f.terms[3].obsolete = true;
    f.terms[3].replacement = Some(200);
    f.edges = vec![(118, 1), (200, 118)];
    f.anns = vec![Facts::ann(Kind::Orpha, 77, "Orpha one", Some(200)), Facts::ann(Kind::Orpha, 78, "Orpha two", Some(118))];
    out.push((RefOnt::derive(&f), "obsolete and replaced term"));
    // 4. no records at all
    let mut f = Facts { version: (2024, 2, 29), ..Default::default() };
    f.terms = vec![t(1, "All"), t(118, "Phenotypic abnormality"), t(7, "early id")];
    f.edges = vec![(118, 1), (7, 118)];
    out.push((RefOnt::derive(&f), "no records"));
    // 5. records of one kind that share their name (names are not keys)
    let mut f = Facts { version: (2024, 2, 29), ..Default::default() };
    f.terms = vec![t(1, "All"), t(118, "Phenotypic abnormality"), t(200, "A"), t(201, "B")];
    f.edges = vec![(118, 1), (200, 118), (201, 118)];
    f.anns = vec![
        Facts::ann(Kind::Gene, 11, "SAME", Some(200)),
        Facts::ann(Kind::Gene, 12, "SAME", Some(201)),
        Facts::ann(Kind::Omim, 600_001, "Same disease", Some(200)),
        Facts::ann(Kind::Omim, 600_002, "Same disease", Some(201)),
        Facts::ann(Kind::Orpha, 77, "Same disease", Some(200)),
        Facts::ann(Kind::Orpha, 78, "Same disease", Some(118)),
    ];
    out.push((RefOnt::derive(&f), "records sharing a name"));
    // 6. one numeric id in all three kinds (a record of one kind must never be taken for one of another kind)
    let mut f = Facts { version: (2024, 2, 29), ..Default::default() };
    f.terms = vec![t(1, "All"), t(118, "Phenotypic abnormality"), t(200, "A"), t(201, "B")];
    f.edges = vec![(118, 1), (200, 118), (201, 118)];
    f.anns = vec![Facts::ann(Kind::Gene, 7, "SEVEN", Some(200)), Facts::ann(Kind::Omim, 7, "Seven (omim)", Some(201)), Facts::ann(Kind::Orpha, 8, "Eight (orpha)", Some(200))];
    out.push((RefOnt::derive(&f), "the same numeric record id in several kinds"));
    // 7. consecutive term ids with gaps of one: record term lists and a parent list that an edit fills, empties
    // or shifts by one (a membership test that treats a dense run of ids as an interval would not see it)
    let mut f = Facts { version: (2024, 2, 29), ..Default::default() };
    f.terms = vec![t(1, "All"), t(118, "Phenotypic abnormality"), t(10, "T10"), t(11, "T11"), t(12, "T12"), t(13, "T13"), t(14, "T14")];
    f.edges = vec![(118, 1), (10, 118), (11, 118), (12, 118), (13, 118), (14, 10), (14, 11), (14, 13)];
    f.anns = vec![
        Facts::ann(Kind::Gene, 11, "GENE1", Some(10)),
        Facts::ann(Kind::Gene, 11, "GENE1", Some(11)),
        Facts::ann(Kind::Gene, 11, "GENE1", Some(13)),
        Facts::ann(Kind::Omim, 600_001, "Disease one", Some(10)),
        Facts::ann(Kind::Omim, 600_001, "Disease one", Some(12)),
        Facts::ann(Kind::Omim, 600_001, "Disease one", Some(14)),
        Facts::ann(Kind::Orpha, 77, "Orpha one", Some(11)),
        Facts::ann(Kind::Orpha, 77, "Orpha one", Some(13)),
    ];
    out.push((RefOnt::derive(&f), "consecutive term ids with gaps"));
    // 8. long and non-ASCII names: disease names are not limited by the binary format (gene symbols and term names are, at 255
    // bytes - they stay just below it here, so that a rename keeps them legal), so every comparison after a round trip must stay empty
    let mut f = Facts { version: (2024, 2, 29), ..Default::default() };
    f.terms = vec![t(1, "All"), t(118, "Phenotypic abnormality"), t(200, &"n".repeat(215)), t(201, "\u{3b2}-cell dysfunction"), t(202, "Caf\u{e9}-au-lait spots, grade 1")];
    f.edges = vec![(118, 1), (200, 118), (201, 118), (202, 201)];
    f.anns = vec![
        Facts::ann(Kind::Gene, 11, &"G".repeat(215), Some(200)),
        Facts::ann(Kind::Omim, 600_001, &format!("{} disease", "long ".repeat(60)), Some(200)),
        Facts::ann(Kind::Orpha, 77, &"\u{e9}".repeat(200), Some(200)),
        Facts::ann(Kind::Orpha, 78, &format!("{}\u{20ac}{}", "x".repeat(254), "y".repeat(40)), Some(118)),
    ];
    out.push((RefOnt::derive(&f), "long names"));
    out
}

fn key(r: &RefOnt) -> u64 {
    crate::ctx::fnv_str(&format!("{:?}", r.to_facts()))
}

fn compare_pair(ctx: &mut Ctx, a: &RefOnt, oa: &Ontology, b: &RefOnt, history: &dyn Fn() -> Value) {
    ctx.exec();
    ctx.validated();
    ctx.transitions(2);
    let ob = match build(b) {
        Ok(o) => o,
        Err(e) => {
            ctx.violation("Ontology::from_bytes", "rejects a file laid out as documented", json!({"facts": b.to_facts().to_json(), "observed": e}));
            return;
        }
    };
    let case = || json!({"old": a.to_facts().to_json(), "new": b.to_facts().to_json(), "edits": history()});
    match guard(|| (observe(oa, &ob), observe(&ob, oa), observe(&ob, &ob))) {
        Err(p) => ctx.violation("Ontology::compare", "panics", json!({"case": case(), "observed": p})),
        Ok((fwd, bwd, same)) => {
            if let Some((site, sig, det)) = first_difference(&fwd, &expected(a, b)) {
                ctx.violation(&site, &sig, json!({"case": case(), "direction": "old.compare(new)", "difference": det}));
                return;
            }
            if let Some((site, sig, det)) = first_difference(&bwd, &expected(b, a)) {
                ctx.violation(&site, &format!("[arguments swapped] {sig}"), json!({"case": case(), "direction": "new.compare(old)", "difference": det}));
                return;
            }
            if same != Report::default() {
                ctx.violation("Ontology::compare", "comparing an ontology with itself reports differences", json!({"case": case(), "observed": format!("{same:?}")}));
            }
            // the new ontology decoded from a file that lists everything in descending order
            ctx.exec();
            match build_descending(b) {
                Ok(od) => match guard(|| (observe(oa, &od), observe(&od, &ob))) {
                    Ok((rep, same2)) => {
                        if let Some((site, sig, det)) = first_difference(&rep, &expected(a, b)) {
                            ctx.violation(&site, &format!("[new ontology decoded from descending lists] {sig}"), json!({"case": case(), "difference": det}));
                        } else if same2 != Report::default() {
                            ctx.violation("Ontology::compare", "two decodings of the same facts (ascending / descending lists inside the file) are reported as different", json!({"case": case(), "observed": format!("{same2:?}")}));
                        }
                    }
                    Err(p) => ctx.violation("Ontology::compare", "[new ontology decoded from descending lists] panics", json!({"case": case(), "observed": p})),
                },
                // whether a file with descending lists must be accepted is a question for the decoder properties, not for this one
                Err(_) => ctx.bump("refused: file with descending lists (new side), by from_bytes", 1),
            }
            // the new ontology against its own binary round trip (the library's writer and reader)
            ctx.exec();
            match guard(|| ob.as_bytes()).ok().and_then(|b| drive::from_bytes(&b).ok()).and_then(|r| r.ok()) {
                Some(o2) => {
                    let rep = guard(|| (observe(&ob, &o2), observe(&o2, &ob)));
                    if rep.as_ref().ok() != Some(&(Report::default(), Report::default())) {
                        ctx.violation("Ontology::compare", "comparing an ontology with its binary round trip reports differences", json!({"facts": b.to_facts().to_json(), "edits": history(), "observed": format!("{rep:?}")}));
                    }
                }
                None => ctx.violation("Ontology::as_bytes -> from_bytes", "round trip fails", json!({"facts": b.to_facts().to_json()})),
            }
            // the same pair built through the Builder API
            if let (Some(ba), Some(bb)) = (build_via_builder(ctx, a), build_via_builder(ctx, b)) {
                ctx.exec();
                match guard(|| observe(&ba, &bb)) {
                    Ok(rep) => {
                        if let Some((site, sig, det)) = first_difference(&rep, &expected(a, b)) {
                            ctx.violation(&site, &format!("[Builder-built ontologies] {sig}"), json!({"case": case(), "difference": det}));
                        }
                    }
                    Err(p) => ctx.violation("Ontology::compare", "[Builder-built ontologies] panics", json!({"case": case(), "observed": p})),
                }
            }
            // the new ontology decoded with ANOTHER release version, and a Builder-built old against a decoded new:
            // the release version is not a difference of terms, genes or diseases, the constructor even less
            {
                let mut fb = b.to_facts();
                fb.version = (2025, 12, 31);
                ctx.exec();
                let ob2 = drive::from_bytes(&encode::encode(&fb, &EncOpts::v(3)));
                if !matches!(ob2, Ok(Ok(_))) {
                    ctx.violation("Ontology::from_bytes", "rejects a file laid out as documented", json!({"facts": fb.to_json(), "observed": format!("{:?}", ob2.as_ref().map(|r| r.as_ref().map(|_| ()))), "side": "new, another release version"}));
                }
                if let Ok(Ok(ob2)) = ob2 {
                    match guard(|| observe(oa, &ob2)) {
                        Ok(rep) => {
                            if let Some((site, sig, det)) = first_difference(&rep, &expected(a, b)) {
                                ctx.violation(&site, &format!("[new ontology carries another release version] {sig}"), json!({"case": case(), "difference": det}));
                            }
                        }
                        Err(p) => ctx.violation("Ontology::compare", "[new ontology carries another release version] panics", json!({"case": case(), "observed": p})),
                    }
                    if let Some(ba) = build_via_builder(ctx, a) {
                        ctx.exec();
                        match guard(|| observe(&ba, &ob2)) {
                            Ok(rep) => {
                                if let Some((site, sig, det)) = first_difference(&rep, &expected(a, b)) {
                                    ctx.violation(&site, &format!("[Builder-built old, decoded new] {sig}"), json!({"case": case(), "difference": det}));
                                }
                            }
                            Err(p) => ctx.violation("Ontology::compare", "[Builder-built old, decoded new] panics", json!({"case": case(), "observed": p})),
                        }
                    }
                }
            }
            ctx.outcome(crate::ctx::fnv_str(&format!("{fwd:?}")));
        }
    }
}

/// What an ontology contains, read back through the read API: the model of "the ontology as it is", for pairs whose
/// contents no fact set of this check fixes (text-loaded ontologies, sub-ontologies). None if the walk fails.
fn model_of(ont: &Ontology) -> Option<RefOnt> {
    crate::obs::Obs::of(ont).ok().map(|o| RefOnt::derive(&o.to_facts((0, 0, 0))))
}

/// Compare two ontologies in both argument orders against the diff of the two given models.
fn compare_models(ctx: &mut Ctx, ma: &RefOnt, oa: &Ontology, mb: &RefOnt, ob: &Ontology, what: &str, case: &dyn Fn() -> Value) {
    ctx.execs(2);
    ctx.validateds(2);
    ctx.transitions(2);
    match guard(|| (observe(oa, ob), observe(ob, oa))) {
        Err(p) => ctx.violation("Ontology::compare", &format!("[{what}] panics"), json!({"case": case(), "observed": p})),
        Ok((fwd, bwd)) => {
            if let Some((site, sig, det)) = first_difference(&fwd, &expected(ma, mb)) {
                ctx.violation(&site, &format!("[{what}] {sig}"), json!({"case": case(), "direction": "old.compare(new)", "old": ma.to_facts().to_json(), "new": mb.to_facts().to_json(), "difference": det}));
            } else if let Some((site, sig, det)) = first_difference(&bwd, &expected(mb, ma)) {
                ctx.violation(&site, &format!("[{what}] [arguments swapped] {sig}"), json!({"case": case(), "direction": "new.compare(old)", "old": ma.to_facts().to_json(), "new": mb.to_facts().to_json(), "difference": det}));
            }
            ctx.outcome(crate::ctx::fnv_str(&format!("{fwd:?}")));
        }
    }
}

/// replacement targets exist in the ontology itself and in the other one (see the assumptions)
fn replacements_resolve(a: &RefOnt, b: &RefOnt) -> bool {
    a.terms.values().chain(b.terms.values()).all(|t| t.replacement.map_or(true, |r| a.terms.contains_key(&r) && b.terms.contains_key(&r)))
}

pub fn run(ctx: &mut Ctx) {
    let thorough = ctx.tier.thorough();
    ctx.rule = "case = (base ontology, first edit) with every applicable second edit; all edit sequences of length 0, 1, 2 (thorough: 3) from every base; each reached fact set is compared with its base in both argument orders and with itself; reached fact sets are de-duplicated per base by canonical form; further: pairs with an (almost) empty side, pairs loaded from text files and pairs of an ontology with its sub-ontologies (expected = diff of the observed contents); distinct by construction; non-trivial = pair differing in at least one fact".into();
    ctx.assumptions = vec![
        "replacement targets exist in both ontologies; HP:1 and HP:118 are never removed (from_bytes needs them)".into(),
        "ontologies are built from the independent v3 encoder (names <= 255 bytes)".into(),
        "the lists are compared as sets; their order is unspecified".into(),
        "AnnotationDelta::id() is only read for the record's number: any run of digits in it that is the id of a record present in both ontologies identifies the record".into(),
    ];
    for (bi, (base, bname)) in bases().iter().enumerate() {
        let edits1 = applicable_edits(base);
        ctx.space(&format!("edits/base{bi}"), &format!("base '{bname}': {} single edits, every pair of edits; old.compare(new), new.compare(old), self-compare, round-trip compare", edits1.len()));
        // length 0: self and round trip
        if ctx.take() {
            ctx.state();
            if let Some(oa) = build_old(ctx, base) {
                compare_pair(ctx, base, &oa, base, &|| json!([]));
                // binary round trip of the library's own writer
                ctx.exec();
                let rt = guard(|| oa.as_bytes()).ok().and_then(|b| drive::from_bytes(&b).ok()).and_then(|r| r.ok());
                match rt {
                    Some(o2) => {
                        let rep = guard(|| observe(&oa, &o2));
                        if rep.as_ref().ok() != Some(&Report::default()) {
                            ctx.violation("Ontology::compare", "comparing an ontology with its binary round trip reports differences", json!({"facts": base.to_facts().to_json(), "observed": format!("{rep:?}")}));
                        }
                    }
                    None => ctx.violation("Ontology::as_bytes -> from_bytes", "round trip fails", json!({"facts": base.to_facts().to_json()})),
                }
            }
        }
        let mut seen: BTreeSet<u64> = BTreeSet::new();
        seen.insert(key(base));
        for e1 in &edits1 {
            if !ctx.take() {
                // keep `seen` identical in every process: it only depends on the enumeration
                let s1 = apply(base, e1);
                seen.insert(key(&s1));
                for e2 in applicable_edits(&s1) {
                    seen.insert(key(&apply(&s1, &e2)));
                }
                continue;
            }
            let Some(oa) = build_old(ctx, base) else { continue };
            let s1 = apply(base, e1);
            if seen.insert(key(&s1)) {
                ctx.state();
                ctx.nontrivial();
                compare_pair(ctx, base, &oa, &s1, &|| json!([format!("{e1:?}")]));
            }
            for e2 in applicable_edits(&s1) {
                let s2 = apply(&s1, &e2);
                if seen.insert(key(&s2)) {
                    ctx.state();
                    ctx.nontrivial();
                    compare_pair(ctx, base, &oa, &s2, &|| json!([format!("{e1:?}"), format!("{e2:?}")]));
                    // also the second step alone: intermediate vs final
                    if let Some(o1) = build_old(ctx, &s1) {
                        compare_pair(ctx, &s1, &o1, &s2, &|| json!([format!("(from the state after {e1:?})"), format!("{e2:?}")]));
                    }
                    if thorough {
                        for e3 in applicable_edits(&s2) {
                            let s3 = apply(&s2, &e3);
                            ctx.state();
                            compare_pair(ctx, base, &oa, &s3, &|| json!([format!("{e1:?}"), format!("{e2:?}"), format!("{e3:?}")]));
                        }
                    }
                }
            }
            ctx.sample(|| json!({"base": bname, "first_edit": format!("{e1:?}"), "second_edits": applicable_edits(&s1).len()}));
        }
    }
    // ---- lists around and beyond the inline capacity of 30: a term with 35 parents, a gene on 40 terms, an OMIM
    // disease on 31 terms; the first / middle / last entry removed, three at once, entries added below / between /
    // above the existing ones, several of these together
    {
        let mut f = Facts { version: (2024, 2, 29), ..Default::default() };
        f.terms = vec![Facts::term(1, "All"), Facts::term(118, "Phenotypic abnormality")];
        f.edges = vec![(118, 1)];
        for k in 0..45u32 {
            f.terms.push(Facts::term(1000 + 2 * k, &format!("P{k}")));
            f.edges.push((1000 + 2 * k, 118));
        }
        f.terms.push(Facts::term(5000, "fan"));
        for k in 5..40u32 {
            f.edges.push((5000, 1000 + 2 * k));
        }
        for k in 3..43u32 {
            f.anns.push(Facts::ann(Kind::Gene, 11, "GENE1", Some(1000 + 2 * k)));
        }
        for k in 10..41u32 {
            f.anns.push(Facts::ann(Kind::Omim, 600_001, "Disease one", Some(1000 + 2 * k)));
        }
        for k in 20..24u32 {
            f.anns.push(Facts::ann(Kind::Orpha, 77, "Orpha one", Some(1000 + 2 * k)));
        }
        let base = RefOnt::derive(&f);
        let parent = |k: u32| 1000 + 2 * k;
        let scripts: Vec<Vec<Edit>> = vec![
            // a record that loses entries and gains a different number of them (a delta that decides from the two
            // list lengths which side to scan is exact on pure additions, pure removals and one-for-one swaps)
            vec![Edit::RemoveAnnotation(Kind::Gene, 11, parent(22)), Edit::AddAnnotation(Kind::Gene, 11, parent(0)), Edit::AddAnnotation(Kind::Gene, 11, parent(44))],
            vec![Edit::RemoveAnnotation(Kind::Gene, 11, parent(3)), Edit::RemoveAnnotation(Kind::Gene, 11, parent(42)), Edit::AddAnnotation(Kind::Gene, 11, parent(1))],
            vec![Edit::RemoveAnnotation(Kind::Omim, 600_001, parent(25)), Edit::AddAnnotation(Kind::Omim, 600_001, parent(2)), Edit::AddAnnotation(Kind::Omim, 600_001, parent(43))],
            vec![Edit::RemoveAnnotation(Kind::Omim, 600_001, parent(10)), Edit::RemoveAnnotation(Kind::Omim, 600_001, parent(40)), Edit::AddAnnotation(Kind::Omim, 600_001, parent(44))],
            vec![Edit::RemoveAnnotation(Kind::Orpha, 77, parent(21)), Edit::AddAnnotation(Kind::Orpha, 77, parent(5)), Edit::AddAnnotation(Kind::Orpha, 77, parent(30))],
            vec![Edit::RemoveAnnotation(Kind::Orpha, 77, parent(20)), Edit::RemoveAnnotation(Kind::Orpha, 77, parent(23)), Edit::AddAnnotation(Kind::Orpha, 77, parent(44))],
            vec![Edit::RemoveParent(5000, parent(5)), Edit::RemoveParent(5000, parent(39)), Edit::AddParent(5000, parent(2))],
            vec![Edit::RemoveParent(5000, parent(5))],
            vec![Edit::RemoveParent(5000, parent(22))],
            vec![Edit::RemoveParent(5000, parent(39))],
            vec![Edit::RemoveParent(5000, parent(5)), Edit::RemoveParent(5000, parent(22)), Edit::RemoveParent(5000, parent(39))],
            vec![Edit::AddParent(5000, parent(0))],
            vec![Edit::AddParent(5000, parent(44))],
            vec![Edit::AddParent(5000, parent(0)), Edit::AddParent(5000, parent(44)), Edit::RemoveParent(5000, parent(35))],
            vec![Edit::RemoveAnnotation(Kind::Gene, 11, parent(3))],
            vec![Edit::RemoveAnnotation(Kind::Gene, 11, parent(22))],
            vec![Edit::RemoveAnnotation(Kind::Gene, 11, parent(42))],
            vec![Edit::RemoveAnnotation(Kind::Gene, 11, parent(3)), Edit::RemoveAnnotation(Kind::Gene, 11, parent(22)), Edit::RemoveAnnotation(Kind::Gene, 11, parent(42)), Edit::AddAnnotation(Kind::Gene, 11, parent(0)), Edit::AddAnnotation(Kind::Gene, 11, parent(44)), Edit::AddAnnotation(Kind::Gene, 11, 5000)],
            vec![Edit::RemoveAnnotation(Kind::Omim, 600_001, parent(40)), Edit::AddAnnotation(Kind::Omim, 600_001, parent(9))],
            vec![Edit::RemoveAnnotation(Kind::Omim, 600_001, parent(10)), Edit::RemoveAnnotation(Kind::Omim, 600_001, parent(25)), Edit::RenameRecord(Kind::Omim, 600_001, 3)],
        ];
        ctx.space("edits/long-lists", &format!("a term with 35 parents, a gene on 40 terms, an OMIM disease on 31 terms, an ORPHA disease on 4 terms: {} edit scripts (first / middle / last entry removed, three at once, entries added below / between / above, one removed + two added and two removed + one added per record kind, combined with a rename)", scripts.len()));
        for script in &scripts {
            if !ctx.take() {
                continue;
            }
            ctx.state();
            ctx.nontrivial();
            let mut cur = base.clone();
            for e in script {
                cur = apply(&cur, e);
            }
            if let Some(oa) = build_old(ctx, &base) {
                compare_pair(ctx, &base, &oa, &cur, &|| json!(script.iter().map(|e| format!("{e:?}")).collect::<Vec<_>>()));
            }
            ctx.sample(|| json!({"script": script.iter().map(|e| format!("{e:?}")).collect::<Vec<_>>()}));
        }
    }
    // ---- one side (almost) empty: an ontology without any term, and one without HP:1 / HP:118 whose few ids lie
    // above, below and inside the other side's (a comparison that returns early for an empty side, or walks two
    // sorted id lists and stops at the end of the shorter one, is exact on every pair of the edit spaces)
    {
        let empty = RefOnt::derive(&Facts::default());
        let mut f = Facts::default();
        f.terms = vec![Facts::term(7, "Seven"), Facts::term(9, "Nine"), Facts::term(9_999_999, "Last")];
        f.edges = vec![(9, 7)];
        f.anns = vec![Facts::ann(Kind::Gene, 1, "G1", Some(9)), Facts::ann(Kind::Gene, 2, "G2", None), Facts::ann(Kind::Omim, 1, "O1", Some(7)), Facts::ann(Kind::Orpha, 1, "R1", Some(9)), Facts::ann(Kind::Orpha, u32::MAX, "Rmax", Some(9_999_999))];
        let small = RefOnt::derive(&f);
        let all = bases();
        ctx.space("one-side-small", &format!("the empty ontology (Ontology::default() and Builder-built) and a Builder-built ontology with the terms 7, 9, 9999999 and five records, without HP:1 and HP:118: each compared with the other, with itself and with each of the {} bases (decoded, and Builder-built where the base has no flags), both argument orders", all.len()));
        let build_min = |r: &RefOnt| drive::build(&r.to_facts(), crate::model::Mode::Minimal);
        if ctx.take() {
            ctx.state();
            ctx.nontrivial();
            match (build_min(&empty), build_min(&small)) {
                (Ok(oe), Ok(os)) => {
                    let od = Ontology::default();
                    for (ma, oa, mb, ob, what) in [(&empty, &od, &small, &os, "Ontology::default() / small"), (&empty, &oe, &small, &os, "Builder-built empty / small"), (&empty, &od, &empty, &oe, "Ontology::default() / Builder-built empty"), (&small, &os, &small, &os, "small / itself"), (&empty, &od, &empty, &od, "Ontology::default() / itself")] {
                        compare_models(ctx, ma, oa, mb, ob, what, &|| json!({"pair": what}));
                    }
                }
                (a, b) => ctx.violation("Builder", "[builder] construction fails on valid facts", json!({"observed": format!("{:?} {:?}", a.err(), b.err())})),
            }
            ctx.sample(|| json!({"pairs": "empty / small / themselves"}));
        }
        for (base, bname) in &all {
            if !ctx.take() {
                continue;
            }
            ctx.state();
            ctx.nontrivial();
            let mut others: Vec<(Ontology, &str)> = vec![];
            if let Some(o) = build_old(ctx, base) {
                others.push((o, "decoded"));
            }
            if let Some(o) = build_via_builder(ctx, base) {
                others.push((o, "Builder-built"));
            }
            if let (Ok(oe), Ok(os)) = (build_min(&empty), build_min(&small)) {
                let od = Ontology::default();
                for (ob, how) in &others {
                    for (ma, oa, what) in [(&empty, &od, "Ontology::default()"), (&empty, &oe, "Builder-built empty ontology"), (&small, &os, "small ontology without HP:1 / HP:118")] {
                        let label = format!("{what} / {how} base");
                        compare_models(ctx, ma, oa, base, ob, &label, &|| json!({"base": bname}));
                    }
                }
            }
            ctx.sample(|| json!({"base": bname, "constructors": others.iter().map(|o| o.1).collect::<Vec<_>>()}));
        }
    }
    // ---- pairs from the other constructors: both sides loaded from text files (the two loaders in turn), and an
    // ontology against its own sub-ontologies. The expected differences are those of what the two ontologies
    // CONTAIN (read back through the read API) - what a loader or sub_ontology should produce is not this property's
    // question, what compare says about the pair is.
    {
        let all = bases();
        ctx.space("pairs/text-loaded-and-sub-ontologies", &format!("each of the {} bases: (a) base and base + every 3rd single edit rendered as JAX text files (records without terms left out) and loaded by from_standard / from_standard_transitive in turn, old.compare(new) and new.compare(old); (b) the decoded base against sub_ontology(root 118 / 1, one leaf or the last two terms) and two such sub-ontologies against each other; expected = the diff of the two observed contents", all.len()));
        for (base, bname) in &all {
            if !ctx.take() {
                continue;
            }
            ctx.state();
            ctx.nontrivial();
            let load = |r: &RefOnt, transitive: bool| -> Option<Ontology> {
                let mut f = r.to_facts();
                f.anns.retain(|a| a.term.is_some());
                // (tab-free, non-empty names of moderate length only: what the text formats can carry)
                if f.terms.iter().any(|t| t.name.is_empty() || t.name.len() > 200) || f.anns.iter().any(|a| a.name.is_empty() || a.name.len() > 200) {
                    return None;
                }
                match crate::jax::load_with(&crate::jax::render(&f, &crate::jax::JaxOpts::default()), transitive, crate::jax::OtherGeneFile::Absent) {
                    Ok(Ok(o)) => Some(o),
                    _ => None,
                }
            };
            let mut n_text = 0;
            // (can the text formats carry the base at all? then both loaders must take the unedited files)
            let text_ok = |r: &RefOnt| {
                let f = r.to_facts();
                !(f.terms.iter().any(|t| t.name.is_empty() || t.name.len() > 200) || f.anns.iter().any(|a| a.term.is_some() && (a.name.is_empty() || a.name.len() > 200)))
            };
            let loaded = load(base, false);
            if text_ok(base) {
                if loaded.is_none() {
                    ctx.bump("skipped: base whose text files from_standard refused (no text-loaded pair of it is compared)", 1);
                }
                if load(base, true).is_none() {
                    ctx.bump("skipped: base whose text files from_standard_transitive refused", 1);
                }
            }
            if let Some(oa) = loaded {
                if model_of(&oa).is_none() {
                    ctx.bump("skipped: text-loaded base that cannot be walked", 1);
                }
                if let Some(ma) = model_of(&oa) {
                    for (i, e) in applicable_edits(base).iter().enumerate().filter(|(i, _)| i % 3 == 0) {
                        // (a name that ends in a blank is not something a text file carries)
                        if matches!(e, Edit::RenameTerm(_, 2) | Edit::RenameRecord(_, _, 2)) {
                            continue;
                        }
                        let s1 = apply(base, e);
                        let Some(ob) = load(&s1, i % 2 == 1) else {
                            if text_ok(&s1) {
                                ctx.bump("skipped: edited text files that the loader refused", 1);
                            }
                            continue;
                        };
                        let Some(mb) = model_of(&ob) else {
                            ctx.bump("skipped: text-loaded ontology that cannot be walked", 1);
                            continue;
                        };
                        if !replacements_resolve(&ma, &mb) {
                            continue;
                        }
                        n_text += 1;
                        compare_models(ctx, &ma, &oa, &mb, &ob, "both ontologies loaded from text files", &|| json!({"base": bname, "edit": format!("{e:?}"), "new loaded by": if i % 2 == 1 { "from_standard_transitive" } else { "from_standard" }}));
                    }
                }
            }
            crate::jax::cleanup();
            let mut n_sub = 0;
            if let (Some(oa), ids) = (build_old(ctx, base), base.terms.keys().copied().collect::<Vec<u32>>()) {
                if model_of(&oa).is_none() {
                    ctx.bump("skipped: decoded base that cannot be walked (no sub-ontology pair of it is compared)", 1);
                }
                if let Some(ma) = model_of(&oa) {
                    let mut subs: Vec<(Ontology, RefOnt, String)> = vec![];
                    for root in [118u32, 1] {
                        let mut leaf_sets: Vec<Vec<u32>> = ids.iter().map(|l| vec![*l]).collect();
                        if ids.len() >= 2 {
                            leaf_sets.push(ids[ids.len() - 2..].to_vec());
                        }
                        for leaves in leaf_sets {
                            let res = guard(|| match (oa.hpo(root), leaves.iter().map(|l| oa.hpo(*l)).collect::<Option<Vec<_>>>()) {
                                (Some(r), Some(ls)) => oa.sub_ontology(r, ls).ok(),
                                _ => None,
                            });
                            // (a valid call - leaf is root or below it - that fails or panics is C14's finding; here it is
                            // a pair that is not compared)
                            let valid = base.terms.contains_key(&root) && leaves.iter().all(|l| *l == root || base.terms[l].ancestors.contains(&root));
                            if valid && !matches!(res, Ok(Some(_))) {
                                ctx.bump("skipped: valid sub_ontology call that failed (pair not compared)", 1);
                            }
                            if let Ok(Some(sub)) = res {
                                if model_of(&sub).is_none() {
                                    ctx.bump("skipped: sub-ontology that cannot be walked", 1);
                                }
                                if let Some(ms) = model_of(&sub) {
                                    if replacements_resolve(&ma, &ms) {
                                        n_sub += 1;
                                        compare_models(ctx, &ma, &oa, &ms, &sub, "an ontology and its sub-ontology", &|| json!({"base": bname, "root": root, "leaves": leaves}));
                                        subs.push((sub, ms, format!("root {root} leaves {leaves:?}")));
                                    }
                                }
                            }
                        }
                    }
                    for w in subs.windows(2) {
                        if replacements_resolve(&w[0].1, &w[1].1) {
                            compare_models(ctx, &w[0].1, &w[0].0, &w[1].1, &w[1].0, "two sub-ontologies of one ontology", &|| json!({"base": bname, "old": w[0].2, "new": w[1].2}));
                        }
                    }
                }
            }
            ctx.bump("pairs_loaded_from_text", n_text);
            ctx.bump("pairs_with_a_sub_ontology", n_sub);
            ctx.sample(|| json!({"base": bname, "text pairs": n_text, "sub-ontology pairs": n_sub}));
        }
    }
    // ---- (last) ontologies beyond 65 536 terms: self-comparison and single edits
    {
        ctx.space("huge/66000-terms", "flat ontology with 66 000 terms (ids 1000..) below HP:118, a gene on the last term: compared with itself, with a copy in which the last term is renamed, and with a copy that has one term more; Builder-built");
        if ctx.take() {
            ctx.state();
            ctx.nontrivial();
            let mk = |extra: bool, rename: bool| -> Result<Ontology, String> {
                let mut f = Facts { version: (2024, 2, 29), ..Default::default() };
                f.terms.push(Facts::term(1, "All"));
                f.terms.push(Facts::term(118, "Phenotypic abnormality"));
                f.edges.push((118, 1));
                let n = 66_000u32 + if extra { 1 } else { 0 };
                for k in 0..n {
                    let id = 1000 + k;
                    let name = if rename && k == 65_999 { "renamed".to_string() } else { format!("T{id}") };
                    f.terms.push(Facts::term(id, &name));
                    f.edges.push((id, 118));
                }
                f.anns.push(Facts::ann(Kind::Gene, 11, "GENE1", Some(1000 + 65_999)));
                drive::build(&f, crate::model::Mode::Defaults)
            };
            ctx.transitions(3 * 66_000);
            match (mk(false, false), mk(false, true), mk(true, false)) {
                (Ok(base), Ok(renamed), Ok(bigger)) => {
                    ctx.execs(4);
                    ctx.validateds(4);
                    let res = guard(|| (observe(&base, &base), observe(&base, &renamed), observe(&base, &bigger), observe(&bigger, &base)));
                    match res {
                        Err(p) => ctx.violation("Ontology::compare", "[66 000 terms] panics", json!({"observed": p})),
                        Ok((same, ren, add, rem)) => {
                            if same != Report::default() {
                                ctx.violation("Ontology::compare", "[66 000 terms] comparing an ontology with itself reports differences", json!({"added": same.added_terms.len(), "removed": same.removed_terms.len()}));
                            }
                            // the three expected reports, complete (all twelve lists and the content of the one delta)
                            let last = 1000 + 65_999u32;
                            let mut want_ren = Report::default();
                            want_ren.changed_terms.insert(last, (Some((format!("T{last}"), "renamed".to_string())), vec![], vec![], None, None));
                            let mut want_add = Report::default();
                            want_add.added_terms.insert(1000 + 66_000);
                            let mut want_rem = Report::default();
                            want_rem.removed_terms.insert(1000 + 66_000);
                            for (got, want, edit) in [(&ren, &want_ren, "last term renamed"), (&add, &want_add, "one term more"), (&rem, &want_rem, "one term more, arguments swapped")] {
                                if let Some((site, sig, det)) = first_difference(got, want) {
                                    ctx.violation(&site, &format!("[66 000 terms] {sig}"), json!({"edit": edit, "difference": det.chars().take(600).collect::<String>()}));
                                }
                            }
                            let ren_ok = ren.added_terms.is_empty() && ren.removed_terms.is_empty() && ren.added_recs.iter().all(|x| x.is_empty()) && ren.removed_recs.iter().all(|x| x.is_empty()) && ren.changed_terms.len() == 1 && ren.changed_terms.contains_key(&(1000 + 65_999));
                            if !ren_ok {
                                ctx.violation("Comparison::changed_hpo_terms", "[66 000 terms] set of changed terms is wrong", json!({"edit": "last term renamed", "changed": ren.changed_terms.keys().take(5).collect::<Vec<_>>(), "added": ren.added_terms.len(), "removed": ren.removed_terms.len()}));
                            }
                            let want: BTreeSet<u32> = [1000 + 66_000].into_iter().collect();
                            if add.added_terms != want || !add.removed_terms.is_empty() || rem.removed_terms != want || !rem.added_terms.is_empty() {
                                ctx.violation("Comparison::added_hpo_terms", "[66 000 terms] added / removed terms are wrong", json!({"edit": "one term more", "added": add.added_terms.iter().take(5).collect::<Vec<_>>(), "removed_when_swapped": rem.removed_terms.iter().take(5).collect::<Vec<_>>()}));
                            }
                        }
                    }
                }
                (a, b, c) => ctx.violation("Builder", "[builder] construction fails on valid facts", json!({"terms": 66_002, "observed": format!("{:?} {:?} {:?}", a.err(), b.err(), c.err())})),
            }
            ctx.sample(|| json!({"terms": 66_002}));
        }
    }
}
