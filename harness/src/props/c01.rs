//! C01 - ancestor sets are the exact transitive closure of the is_a relation.

use crate::ctx::Ctx;
use crate::drive::{self, check_against_model};
use crate::encode::{self, EncOpts, Sections};
use crate::jax::{self, JaxOpts};
use crate::model::{Facts, Mode, RefOnt};
use crate::obs::Obs;
use crate::space::{all_dags, apply_perm, permutations, rotations_and_reverse, Dag};
use hpo::Ontology;
use serde_json::{json, Value};

/// ascending id pool for generic graphs (node k of a labelled DAG carries the k-th id)
pub const POOL: [u32; 6] = [1, 7, 118, 4000, 77_777, 9_999_999];
/// ascending id pool containing both standard roots within the first two / three ids
pub const POOL_ROOTS: [u32; 6] = [1, 118, 119, 4000, 77_777, 9_999_999];
/// consecutive ids (comparisons that are off by one only matter for adjacent values)
pub const POOL_ADJACENT: [u32; 6] = [1, 2, 3, 4, 5, 6];
/// terms of the 70 000-term heap whose ordered pairs are asked for child_of / parent_of: the route 70000, 35000,
/// ... 1, the route 65537, 32768, ... 1 (which shares only its top with the first), and the 16-bit border
const HEAP_PAIRS: [u32; 24] = [1, 2, 3, 4, 8, 17, 34, 68, 118, 136, 273, 546, 1093, 2187, 4375, 8750, 17_500, 32_768, 35_000, 65_535, 65_536, 65_537, 69_999, 70_000];

/// First ordered pair (a, b) of `ids` for which child_of / parent_of is not membership in the model's closure.
fn pairs_diff(ont: &Ontology, r: &RefOnt, ids: &[u32]) -> Option<(String, String, String)> {
    for a in ids {
        let ta = &r.terms[a];
        for b in ids {
            let (Some(x), Some(y)) = (ont.hpo(*a), ont.hpo(*b)) else {
                return Some(("Ontology::hpo".into(), "term missing".into(), format!("{a} or {b}")));
            };
            let want = ta.ancestors.contains(b);
            if x.child_of(&y) != want {
                return Some(("HpoTerm::child_of".into(), "child_of is not membership in the ancestor closure".into(), format!("{a}.child_of({b}) = {} expected {}", !want, want)));
            }
            if y.parent_of(&x) != want {
                return Some(("HpoTerm::parent_of".into(), "parent_of is not membership in the ancestor closure".into(), format!("{b}.parent_of({a}) = {} expected {}", !want, want)));
            }
        }
    }
    None
}

/// child_of / parent_of must be exactly closure membership for every ordered pair.
pub fn check_pairs(ctx: &mut Ctx, ont: &Ontology, r: &RefOnt, path: &str, case: &dyn Fn() -> Value) {
    let ids: Vec<u32> = r.terms.keys().copied().collect();
    check_pairs_at(ctx, ont, r, &ids, path, case);
}

/// The same for every ordered pair of the listed terms only (shapes too big for all pairs).
pub fn check_pairs_at(ctx: &mut Ctx, ont: &Ontology, r: &RefOnt, ids: &[u32], path: &str, case: &dyn Fn() -> Value) {
    match crate::ctx::guard(|| pairs_diff(ont, r, ids)) {
        Ok(None) => {}
        Ok(Some((site, sig, det))) => ctx.violation(&site, &format!("[{path}] {sig}"), json!({"path": path, "case": case(), "difference": det})),
        Err(msg) => ctx.violation("HpoTerm::child_of", &format!("[{path}] panics"), json!({"path": path, "case": case(), "observed": msg})),
    }
}

/// `per_ont` oracle of C01 for the ontology sequences: the observation against the model, then child_of /
/// parent_of for every ordered pair.
fn obs_and_pairs(ont: &Ontology, r: &RefOnt, mode: Mode) -> Option<(String, String, String)> {
    match Obs::of(ont) {
        Err(i) => Some((i.site, "read API inconsistent or panicking".to_string(), i.what)),
        Ok(o) => o.diff(&Obs::expected(r, mode), false).or_else(|| {
            let ids: Vec<u32> = r.terms.keys().copied().collect();
            pairs_diff(ont, r, &ids)
        }),
    }
}

fn run_builder(ctx: &mut Ctx, f: &Facts, r: &RefOnt, what: &str) {
    ctx.transitions(f.n_steps());
    match drive::build(f, Mode::Minimal) {
        Err(e) => {
            ctx.exec();
            ctx.violation("Builder", "[builder] construction fails on valid facts", json!({"case": f.to_json(), "observed": e, "order": what}));
        }
        Ok(ont) => {
            let case = || json!({"facts": f.to_json(), "order": what, "rust": f.to_rust(false)});
            check_against_model(ctx, &ont, r, Mode::Minimal, "builder", &case);
            check_pairs(ctx, &ont, r, "builder", &case);
        }
    }
}

fn nontrivial(d: &Dag) -> bool {
    d.has_depth2()
}

/// Observed ontology must be consistent with its own direct parent links (used for sub_ontology results).
pub fn self_consistent(ctx: &mut Ctx, ont: &Ontology, path: &str, mode: Mode, case: &dyn Fn() -> Value) {
    let _ = self_consistent_model(ctx, ont, path, mode, case);
}

/// The same; returns the model derived from the facts the result itself reports (None when the observation
/// could not be taken or a parent id dangles).
fn self_consistent_model(ctx: &mut Ctx, ont: &Ontology, path: &str, mode: Mode, case: &dyn Fn() -> Value) -> Option<RefOnt> {
    ctx.exec();
    ctx.validated();
    match Obs::of(ont) {
        Err(inc) => {
            ctx.violation(&inc.site, &format!("[{path}] read API inconsistent or panicking"), json!({"path": path, "case": case(), "observed": inc.what}));
            None
        }
        Ok(obs) => {
            // facts as the result itself reports them
            let mut f = Facts::default();
            for t in &obs.terms {
                f.terms.push(crate::model::TermFact { id: t.id, name: t.name.clone(), obsolete: t.obsolete, replacement: t.replacement });
                for p in &t.parents {
                    f.edges.push((t.id, *p));
                }
            }
            for (k, kind) in crate::model::KINDS.iter().enumerate() {
                for rec in &obs.recs[k] {
                    if rec.terms.is_empty() {
                        f.anns.push(Facts::ann(*kind, rec.id, &rec.name, None));
                    }
                    for t in &rec.terms {
                        f.anns.push(Facts::ann(*kind, rec.id, &rec.name, Some(*t)));
                    }
                }
            }
            // a parent id that is not a term of the result is a dangling reference
            let ids: std::collections::BTreeSet<u32> = obs.terms.iter().map(|t| t.id).collect();
            for (c, p) in &f.edges {
                if !ids.contains(p) {
                    ctx.violation("HpoTerm::parent_ids", &format!("[{path}] parent id does not resolve"), json!({"case": case(), "difference": format!("term {c} lists parent {p}")}));
                    return None;
                }
            }
            let r = RefOnt::derive(&f);
            let mut exp = Obs::expected(&r, mode);
            // version / categories of the result are not derivable from its own facts here
            exp.version = obs.version.clone();
            if mode == Mode::Minimal {
                exp.categories = obs.categories.clone();
                exp.modifier = obs.modifier.clone();
                for (a, b) in exp.terms.iter_mut().zip(obs.terms.iter()) {
                    a.is_modifier = b.is_modifier;
                    a.categories = b.categories.clone();
                }
            }
            if let Some((site, sig, det)) = obs.diff(&exp, false) {
                ctx.violation(&site, &format!("[{path}] not consistent with its own direct links: {sig}"), json!({"path": path, "case": case(), "difference": det}));
            }
            ctx.outcome(obs.fingerprint());
            Some(r)
        }
    }
}

pub fn run(ctx: &mut Ctx) {
    ctx.rule = "case = one labelled DAG (node k carries the k-th id of an ascending pool) with all its listed supply orders; distinct by construction; non-trivial = closure differs from the direct parents (depth >= 2 or diamond)".into();
    ctx.assumptions = vec![
        "acyclic is_a graphs only; term ids < 10^7".into(),
        "ids influence the code only through their relative order and as array indices, so labelled DAGs x an ascending id pool cover all id assignments (DESIGN.md 2.4)".into(),
        "in addition every graph on <= 4 nodes and four six-term shapes are built on ids spread over the whole range (around 2^16, 2^20, the last 4096-id page below 10^7), should an id's magnitude matter after all".into(),
        "HashMap iteration order is not controlled; observations are sorted".into(),
        "which calls sub_ontology accepts is C14's statement: a refusal is reported only when every leaf is a proper descendant of root; results are checked against the closure of the direct links they report themselves".into(),
        "only the graph part of the observation is compared (ids, direct parents, children, ancestors and their iterator twins, as sets); names, flags, records, information content, categories and the version text belong to other properties".into(),
    ];
    let thorough = ctx.tier.thorough();

    // ---- 1. Builder, D(<=4): all term orders x all link orders
    for n in 1..=4usize {
        let dags = all_dags(n);
        let tperms = permutations(n);
        ctx.space(&format!("builder/D{n}/all-term-orders-x-all-link-orders"), &format!("{} labelled DAGs x {}! term orders x e! link orders", dags.len(), n));
        for d in &dags {
            if !ctx.take() {
                continue;
            }
            ctx.state();
            if nontrivial(d) {
                ctx.nontrivial();
            }
            let base = Facts::from_dag(d, &POOL);
            let r = RefOnt::derive(&base);
            let eperms = permutations(base.edges.len());
            for tp in &tperms {
                for ep in &eperms {
                    let f = Facts { terms: apply_perm(&base.terms, tp), edges: apply_perm(&base.edges, ep), ..base.clone() };
                    run_builder(ctx, &f, &r, "term order x link order");
                }
            }
            // the same graph on consecutive ids (adjacent values): every term order, canonical link order
            let adj = Facts::from_dag(d, &POOL_ADJACENT);
            let radj = RefOnt::derive(&adj);
            for tp in &tperms {
                let f = Facts { terms: apply_perm(&adj.terms, tp), ..adj.clone() };
                run_builder(ctx, &f, &radj, "consecutive ids, term order");
            }
            // the same facts with rejected add_parent calls (absent parent / absent child) before every link
            {
                super::common::via_builder_rejected(ctx, &base, &r, Mode::Minimal, "canonical order");
                let mut rev = base.clone();
                rev.terms.reverse();
                rev.edges.reverse();
                super::common::via_builder_rejected(ctx, &rev, &r, Mode::Minimal, "reversed order");
            }
            ctx.sample(|| json!({"dag": d.describe(), "ids": &POOL[..n], "term_orders": tperms.len(), "link_orders": eperms.len()}));
        }
    }

    // ---- 1b. the same graphs on ids spread over the whole id range: the generic pool reaches 77 777 at most for
    // n <= 5, so an id table that is paged, or a memo whose key is narrowed, would never meet an id it treats
    // differently. Four pools: spread over the range; around 2^16; around 2^20; the top of the range, across the
    // last 4096-id page border (9 998 336 = 2441 * 4096)
    {
        const WIDE: [[u32; 4]; 4] = [[1, 65_536, 1_048_577, 9_999_999], [65_535, 65_536, 65_537, 131_072], [1_048_575, 1_048_576, 1_048_577, 2_097_152], [9_998_335, 9_998_336, 9_999_998, 9_999_999]];
        for n in 1..=4usize {
            let dags = all_dags(n);
            let tperms = permutations(n);
            let few = rotations_and_reverse(n);
            ctx.space(&format!("builder/D{n}/ids-over-the-whole-range"), &format!("{} labelled DAGs x id pools {:?} (first {n} ids of each) x {} term orders (n = 4: all 24 for the first pool, rotations + reverse for the others), links in canonical order", dags.len(), WIDE, if n < 4 { tperms.len() } else { 24 }));
            for d in &dags {
                if !ctx.take() {
                    continue;
                }
                ctx.state();
                if nontrivial(d) {
                    ctx.nontrivial();
                }
                for (pi, pool) in WIDE.iter().enumerate() {
                    let base = Facts::from_dag(d, pool);
                    let r = RefOnt::derive(&base);
                    for tp in if n < 4 || pi == 0 { &tperms } else { &few } {
                        let f = Facts { terms: apply_perm(&base.terms, tp), ..base.clone() };
                        run_builder(ctx, &f, &r, "ids over the whole range, term order");
                    }
                }
                ctx.sample(|| json!({"dag": d.describe(), "id_pools": WIDE, "term_orders": tperms.len()}));
            }
        }
        // six-term shapes over [1, 118, 2^16, 2^20+1, 9 998 336, 9 999 999] in both id directions, through every path
        let pool6: [u32; 6] = [1, 118, 65_536, 1_048_577, 9_998_336, 9_999_999];
        let shapes: Vec<(Vec<(usize, usize)>, &str)> = vec![
            ((1..6).map(|k| (k, k - 1)).collect(), "chain of 6"),
            ((1..6).flat_map(|c| (0..c).map(move |p| (c, p))).collect(), "total order on 6 (every term is_a all earlier ones)"),
            (vec![(1, 0), (2, 1), (3, 1), (4, 2), (4, 3), (5, 4)], "diamond with a tail"),
            (vec![(1, 0), (2, 1), (3, 1), (4, 1), (5, 2), (5, 3), (5, 4)], "three parents"),
        ];
        ctx.space("ids-over-the-whole-range/six-terms/all-paths", &format!("{} shapes (chain, total order, diamond with a tail, three parents) over ids {:?}, descendants with larger ids and (below HP:118) with smaller ids x Builder (ascending, descending, links reversed), binary v1-v3 (ascending / descending records), hp.obo (both stanza orders, both loaders): observation against the model and child_of / parent_of for every ordered pair", shapes.len(), pool6));
        for (edges, what) in &shapes {
            for reversed in [false, true] {
                if !ctx.take() {
                    continue;
                }
                ctx.state();
                ctx.nontrivial();
                // node 0 = HP:1, node 1 = HP:118, nodes 2..6 = the four large ids ascending or descending
                let id = |k: usize| if reversed && k >= 2 { pool6[7 - k] } else { pool6[k] };
                let mut base = Facts::default();
                base.version = (2024, 2, 29);
                for k in 0..6 {
                    base.terms.push(Facts::term(id(k), &format!("N{k}")));
                }
                for &(c, p) in edges {
                    base.edges.push((id(c), id(p)));
                }
                let r = RefOnt::derive(&base);
                let mut desc = base.clone();
                desc.terms.reverse();
                let mut rev = desc.clone();
                rev.edges.reverse();
                for (f, oname) in [(&base, "ascending"), (&desc, "descending"), (&rev, "descending, links reversed")] {
                    run_builder(ctx, f, &r, oname);
                    for version in [1u8, 2, 3] {
                        ctx.transitions(f.n_steps());
                        let case = || json!({"facts": f.to_json(), "format_version": version, "order": oname});
                        match drive::from_bytes(&encode::encode(f, &EncOpts::v(version))) {
                            Ok(Ok(ont)) => {
                                check_against_model(ctx, &ont, &r, Mode::Defaults, &format!("binary v{version}"), &case);
                                check_pairs(ctx, &ont, &r, &format!("binary v{version}"), &case);
                            }
                            other => {
                                ctx.exec();
                                ctx.violation("Ontology::from_bytes", &format!("[binary v{version}] rejects or panics on a file laid out as documented"), json!({"case": case(), "observed": format!("{:?}", other.map(|r| r.map(|_| ())))}));
                            }
                        }
                    }
                    for transitive in [false, true] {
                        ctx.transitions(f.n_steps());
                        let rendered = jax::render(f, &JaxOpts::default());
                        let case = || json!({"facts": f.to_json(), "order": oname, "transitive_loader": transitive, "hp.obo": rendered.obo});
                        match jax::load(&rendered, transitive) {
                            Ok(Ok(ont)) => {
                                check_against_model(ctx, &ont, &r, Mode::Defaults, "obo", &case);
                                check_pairs(ctx, &ont, &r, "obo", &case);
                            }
                            other => {
                                ctx.exec();
                                ctx.violation("Ontology::from_standard", "[obo] rejects or panics on valid JAX files", json!({"case": case(), "observed": format!("{:?}", other.map(|r| r.map(|_| ())))}));
                            }
                        }
                    }
                }
                ctx.sample(|| json!({"shape": what, "ids": (0..6).map(id).collect::<Vec<u32>>()}));
            }
        }
        jax::cleanup();
    }

    // ---- 2. Builder, D5 (thorough: all 120 term orders; quick: asc/desc/rotations) and D6 thorough
    {
        let n = 5;
        let dags = all_dags(n);
        let orders = if thorough { permutations(n) } else { rotations_and_reverse(n) };
        ctx.space(&format!("builder/D5/{}", if thorough { "all-120-term-orders" } else { "rotations+reverse" }), &format!("{} labelled DAGs x {} term orders, links in canonical and reversed order", dags.len(), orders.len()));
        for d in &dags {
            if !ctx.take() {
                continue;
            }
            ctx.state();
            if nontrivial(d) {
                ctx.nontrivial();
            }
            let base = Facts::from_dag(d, &POOL);
            let r = RefOnt::derive(&base);
            for tp in &orders {
                let mut f = Facts { terms: apply_perm(&base.terms, tp), ..base.clone() };
                run_builder(ctx, &f, &r, "term order");
                if tp[0] == 0 && f.edges.len() > 1 {
                    f.edges.reverse();
                    run_builder(ctx, &f, &r, "term order, links reversed");
                }
            }
            ctx.sample(|| json!({"dag": d.describe(), "ids": &POOL[..n], "term_orders": orders.len()}));
        }
    }
    if thorough {
        let n = 6;
        let dags = all_dags(n);
        ctx.space("builder/D6/asc+desc", &format!("{} labelled DAGs x ascending and descending term order", dags.len()));
        for d in &dags {
            if !ctx.take() {
                continue;
            }
            ctx.state();
            if nontrivial(d) {
                ctx.nontrivial();
            }
            let base = Facts::from_dag(d, &POOL);
            let r = RefOnt::derive(&base);
            run_builder(ctx, &base, &r, "ascending");
            let mut f = base.clone();
            f.terms.reverse();
            run_builder(ctx, &f, &r, "descending");
            ctx.sample(|| json!({"dag": d.describe(), "ids": &POOL[..n]}));
        }
    }

    // ---- 2b. structured large graphs (depth / fan sizes across the inline limit of 30) in several supply orders
    {
        let family = super::common::large_family();
        ctx.space("large-structured/builder+binary+obo", &format!("{} large shapes (chains 31..100, fans 29..40, binary tree, ladder, total order, joined chains; both id directions) x 5 supply orders via Builder, x asc/desc record order via binary v3 and hp.obo; observation against the model and child_of / parent_of for every ordered pair on every path", family.len()));
        for (base, what) in &family {
            if !ctx.take() {
                continue;
            }
            ctx.state();
            ctx.nontrivial();
            let r = RefOnt::derive(base);
            let n = base.terms.len();
            for (order, oname) in super::common::large_orders(n) {
                let mut f = Facts { terms: apply_perm(&base.terms, &order), ..base.clone() };
                ctx.transitions(f.n_steps());
                match drive::build(&f, Mode::Minimal) {
                    Err(e) => {
                        ctx.exec();
                        ctx.violation("Builder", "[builder] construction fails on valid facts", json!({"shape": what, "order": oname, "observed": e}));
                    }
                    Ok(ont) => {
                        let case = || json!({"shape": what, "term_order": oname, "n_terms": n});
                        check_against_model(ctx, &ont, &r, Mode::Minimal, "builder", &case);
                        check_pairs(ctx, &ont, &r, "builder", &case);
                    }
                }
                if oname.starts_with("asc") || oname.starts_with("desc") {
                    // links reversed as well
                    f.edges.reverse();
                    ctx.transitions(f.n_steps());
                    match drive::build(&f, Mode::Minimal) {
                        // (the same facts in another call order: valid, so a refusal or a panic is a violation as above)
                        Err(e) => {
                            ctx.exec();
                            ctx.violation("Builder", "[builder] construction fails on valid facts", json!({"shape": what, "order": oname, "links": "reversed", "observed": e}));
                        }
                        Ok(ont) => {
                            let case = || json!({"shape": what, "term_order": oname, "links": "reversed", "n_terms": n});
                            check_against_model(ctx, &ont, &r, Mode::Minimal, "builder", &case);
                            check_pairs(ctx, &ont, &r, "builder", &case);
                        }
                    }
                    f.edges.reverse();
                    // binary v3 and obo in this term order
                    let bytes = encode::encode(&f, &EncOpts::v(3));
                    let case = || json!({"shape": what, "record_order": oname, "n_terms": n});
                    ctx.transitions(f.n_steps());
                    match drive::from_bytes(&bytes) {
                        Ok(Ok(ont)) => {
                            check_against_model(ctx, &ont, &r, Mode::Defaults, "binary v3", &case);
                            check_pairs(ctx, &ont, &r, "binary v3", &case);
                        }
                        other => {
                            ctx.exec();
                            ctx.violation("Ontology::from_bytes", "[binary v3] rejects or panics on a file laid out as documented", json!({"case": case(), "observed": format!("{:?}", other.map(|r| r.map(|_| ())))}));
                        }
                    }
                    ctx.transitions(f.n_steps());
                    match jax::load(&jax::render(&f, &JaxOpts::default()), false) {
                        Ok(Ok(ont)) => {
                            check_against_model(ctx, &ont, &r, Mode::Defaults, "obo", &case);
                            check_pairs(ctx, &ont, &r, "obo", &case);
                        }
                        other => {
                            ctx.exec();
                            ctx.violation("Ontology::from_standard", "[obo] rejects or panics on valid JAX files", json!({"case": case(), "observed": format!("{:?}", other.map(|r| r.map(|_| ())))}));
                        }
                    }
                }
            }
            ctx.sample(|| json!({"shape": what, "n_terms": n, "orders": 5}));
        }
        jax::cleanup();
    }

    // ---- 3. binary v1/v2/v3 over {1,118,+extras}: all term-record orders, all parent-record orders, link orders
    let nb = if thorough { 5 } else { 4 };
    {
        let dags = all_dags(nb);
        let perms = if thorough { rotations_and_reverse(nb) } else { permutations(nb) };
        ctx.space(&format!("binary/D{nb}/v1-v3/record-orders"), &format!("{} labelled DAGs over ids {:?} x versions 1,2,3 x {} term-record orders + {} parent-record orders + reversed links; isolated terms and one linked non-root term flagged obsolete (v2,v3)", dags.len(), &POOL_ROOTS[..nb], perms.len(), perms.len()));
        for (di, d) in dags.iter().enumerate() {
            if !ctx.take() {
                continue;
            }
            ctx.state();
            if nontrivial(d) {
                ctx.nontrivial();
            }
            let mut base = Facts::from_dag(d, &POOL_ROOTS);
            base.version = (2024, 2, 29);
            // isolated nodes (no parents, no children) become obsolete terms, as in real releases
            let anc = d.parents.clone();
            for k in 0..d.n {
                let has_child = (0..d.n).any(|c| anc[c] >> k & 1 == 1);
                if anc[k] == 0 && !has_child && base.terms[k].id != 1 && base.terms[k].id != 118 {
                    base.terms[k].obsolete = true;
                }
            }
            // one linked non-root term (alternating between the two lowest) is flagged obsolete and replaced as
            // well: flags must not influence the closure, whatever the record order
            {
                // three flag shapes in rotation: obsolete + replaced, obsolete only, replaced only
                let k = 2 + di % 2;
                if k < d.n {
                    match (di / 2) % 3 {
                        0 => {
                            base.terms[k].obsolete = true;
                            base.terms[k].replacement = Some(base.terms[(k + 1) % d.n].id);
                        }
                        1 => base.terms[k].obsolete = true,
                        _ => base.terms[k].replacement = Some(base.terms[(k + 1) % d.n].id),
                    }
                }
            }
            for version in [1u8, 2, 3] {
                let pf = encode::project(&base, version);
                let r = RefOnt::derive(&pf);
                let mut variants: Vec<(Facts, EncOpts, &str)> = vec![];
                let canonical = encode::encode(&pf, &EncOpts::v(version));
                for p in &perms {
                    variants.push((Facts { terms: apply_perm(&pf.terms, p), ..pf.clone() }, EncOpts::v(version), "term-record order"));
                    let mut o = EncOpts::v(version);
                    o.parents_order = Some(p.clone());
                    variants.push((pf.clone(), o, "parent-record order"));
                }
                if pf.edges.len() > 1 {
                    let mut g = pf.clone();
                    g.edges.reverse();
                    // (refuse-or-exact: whether a reader has to accept ids in another than ascending order is not stated)
                    variants.push((g, EncOpts::list_order(version), "parent ids reversed inside records"));
                }
                let mut o = EncOpts::v(version);
                o.omit_empty_parent_records = true;
                variants.push((pf.clone(), o, "no parent record for parentless terms"));
                // layouts the format table does not rule out but the writer never produces: one parent record per
                // link, and a parent id listed twice inside a record. What a decoder does with them is not specified
                // (refusing is fine); an ontology it returns must be consistent with the links it reports itself
                for (split, repeat, what) in [(true, false, "one parent record per link"), (false, true, "first parent id repeated at the end of the record"), (true, true, "one parent record per link, each id twice")] {
                    let mut o = EncOpts::v(version);
                    o.split_parent_records = split;
                    o.repeat_parent_ids = repeat;
                    let bytes = encode::encode(&pf, &o);
                    // (keyed on the file, not on the option: on a graph without a term with two parents / without any
                    // link the option changes nothing - that file is the documented one and is decoded strictly below)
                    if bytes == canonical {
                        variants.push((pf.clone(), o, what));
                        continue;
                    }
                    ctx.transitions(pf.n_steps());
                    super::c08::self_consistent_or_refused(ctx, &bytes, &format!("binary v{version}, {what}"), &|| json!({"facts": pf.to_json(), "format_version": version, "layout": what}));
                }
                for (f, o, what) in variants {
                    ctx.transitions(f.n_steps());
                    let bytes = encode::encode(&f, &o);
                    let case = || json!({"facts": f.to_json(), "format_version": version, "order": what, "bytes_len": bytes.len()});
                    match drive::from_bytes(&bytes) {
                        Ok(Ok(ont)) => {
                            check_against_model(ctx, &ont, &r, Mode::Defaults, &format!("binary v{version}"), &case);
                            check_pairs(ctx, &ont, &r, &format!("binary v{version}"), &case);
                        }
                        // (lenient only if the file really has ids in another than ascending order inside a record)
                        Ok(Err(_)) | Err(_) if o.ids_in_list_order && bytes != canonical => {
                            ctx.exec();
                            ctx.bump("refused: parent ids inside a record not ascending", 1);
                        }
                        Ok(Err(e)) => {
                            ctx.exec();
                            ctx.violation("Ontology::from_bytes", &format!("[binary v{version}] rejects a file laid out as documented"), json!({"case": case(), "observed": e}));
                        }
                        Err(p) => {
                            ctx.exec();
                            ctx.violation("Ontology::from_bytes", &format!("[binary v{version}] panics on a file laid out as documented"), json!({"case": case(), "observed": p}));
                        }
                    }
                }
            }
            ctx.sample(|| json!({"dag": d.describe(), "ids": &POOL_ROOTS[..nb], "versions": [1, 2, 3], "orders_each": perms.len() * 2 + 2}));
        }
    }

    // ---- 4. obo loaders: all stanza orders, is_a line orders
    {
        let dags = all_dags(4);
        let perms = permutations(4);
        ctx.space("obo/D4/stanza-orders", &format!("{} labelled DAGs over ids {:?} x 24 stanza orders (from_standard) + 4 orders (from_standard_transitive) + reversed is_a lines; isolated terms and one linked non-root term flagged obsolete", dags.len(), &POOL_ROOTS[..4]));
        for (di, d) in dags.iter().enumerate() {
            if !ctx.take() {
                continue;
            }
            ctx.state();
            if nontrivial(d) {
                ctx.nontrivial();
            }
            let mut base = Facts::from_dag(d, &POOL_ROOTS);
            base.version = (2024, 2, 29);
            for k in 0..d.n {
                let has_child = (0..d.n).any(|c| d.parents[c] >> k & 1 == 1);
                if d.parents[k] == 0 && !has_child && base.terms[k].id != 1 && base.terms[k].id != 118 {
                    base.terms[k].obsolete = true;
                }
            }
            {
                // three flag shapes in rotation: obsolete + replaced, obsolete only, replaced only
                let k = 2 + di % 2;
                if k < d.n {
                    match (di / 2) % 3 {
                        0 => {
                            base.terms[k].obsolete = true;
                            base.terms[k].replacement = Some(base.terms[(k + 1) % d.n].id);
                        }
                        1 => base.terms[k].obsolete = true,
                        _ => base.terms[k].replacement = Some(base.terms[(k + 1) % d.n].id),
                    }
                }
            }
            let r = RefOnt::derive(&base);
            let mut variants: Vec<(Facts, JaxOpts, bool, &str)> = vec![];
            for (i, p) in perms.iter().enumerate() {
                let mut o = JaxOpts::default();
                o.stanza_order = Some(p.clone());
                variants.push((base.clone(), o.clone(), false, "stanza order"));
                if i % 6 == 0 {
                    variants.push((base.clone(), o, true, "stanza order (transitive loader)"));
                }
            }
            if base.edges.len() > 1 {
                let mut g = base.clone();
                g.edges.reverse();
                variants.push((g, JaxOpts::default(), false, "is_a lines reversed"));
                let mut o = JaxOpts::default();
                o.distractors = vec![jax::Distractor::TagsBetweenIsA, jax::Distractor::ExtraTags];
                variants.push((base.clone(), o.clone(), false, "other tag lines between and around the is_a lines"));
                let mut om = JaxOpts::default();
                om.distractors = vec![jax::Distractor::IsATrailingModifier];
                variants.push((base.clone(), om, false, "is_a lines with a trailing modifier {source=...}"));
                for (d, what) in [(jax::Distractor::DuplicateIsA, "an is_a line occurs twice in a stanza"), (jax::Distractor::IsATextInValues, "the text 'is_a: HP:...' inside def / comment values")] {
                    let mut od = JaxOpts::default();
                    od.distractors = vec![d];
                    variants.push((base.clone(), od.clone(), false, what));
                    variants.push((base.clone(), od, true, what));
                }
                variants.push((base.clone(), o, true, "other tag lines between and around the is_a lines (transitive loader)"));
            }
            for (f, o, transitive, what) in variants {
                ctx.transitions(f.n_steps());
                let rendered = jax::render(&f, &o);
                let case = || json!({"facts": f.to_json(), "order": what, "stanza_order": o.stanza_order, "hp.obo": rendered.obo});
                match jax::load(&rendered, transitive) {
                    Ok(Ok(ont)) => {
                        check_against_model(ctx, &ont, &r, Mode::Defaults, "obo", &case);
                        check_pairs(ctx, &ont, &r, "obo", &case);
                    }
                    Ok(Err(e)) => {
                        ctx.exec();
                        ctx.violation("Ontology::from_standard", "[obo] rejects valid JAX files", json!({"case": case(), "observed": e}));
                    }
                    Err(p) => {
                        ctx.exec();
                        ctx.violation("Ontology::from_standard", "[obo] panics on valid JAX files", json!({"case": case(), "observed": p}));
                    }
                }
            }
            ctx.sample(|| json!({"dag": d.describe(), "ids": &POOL_ROOTS[..4], "stanza_orders": 24}));
        }
        jax::cleanup();
    }

    // ---- 5. sub_ontology results are closed under their own links
    for n in 2..=4usize {
        let dags = all_dags(n);
        ctx.space(&format!("sub_ontology/D{n}/all-roots-x-leaf-subsets"), &format!("{} labelled DAGs x every root x every non-empty subset of (root and the terms below it) as leaves: the result is consistent with its own direct links (ancestors, children, child_of / parent_of for every ordered pair); a refusal is tolerated when root is among the leaves", dags.len()));
        for d in &dags {
            if !ctx.take() {
                continue;
            }
            ctx.state();
            if nontrivial(d) {
                ctx.nontrivial();
            }
            let base = Facts::from_dag(d, &POOL);
            let r = RefOnt::derive(&base);
            ctx.transitions(base.n_steps());
            let Ok(src) = drive::build(&base, Mode::Minimal) else {
                ctx.exec();
                ctx.violation("Builder", "[builder] construction fails on valid facts", json!({"case": base.to_json()}));
                continue;
            };
            let ids: Vec<u32> = base.terms.iter().map(|t| t.id).collect();
            for &root in &ids {
                let below: Vec<u32> = ids.iter().copied().filter(|t| *t == root || r.terms[t].ancestors.contains(&root)).collect();
                for mask in 1u32..(1 << below.len()) {
                    let leaves: Vec<u32> = crate::space::bits(mask, below.len()).iter().map(|i| below[*i]).collect();
                    ctx.transitions(1 + leaves.len() as u64);
                    let res = crate::ctx::guard(|| src.sub_ontology(src.hpo(root).unwrap(), leaves.iter().map(|l| src.hpo(*l).unwrap()).collect::<Vec<_>>()).map_err(|e| e.to_string()));
                    let case = || json!({"source": base.to_json(), "root": root, "leaves": leaves});
                    match res {
                        Ok(Ok(sub)) => {
                            if let Some(own) = self_consistent_model(ctx, &sub, "sub_ontology", Mode::Minimal, &case) {
                                check_pairs(ctx, &sub, &own, "sub_ontology", &case);
                            }
                        }
                        // the function documents "fails if root is not an ancestor of all leaves", and a term is not its
                        // own ancestor: whether a leaf that IS root is accepted is C14's statement, not this one's
                        Ok(Err(_)) if leaves.contains(&root) => {
                            ctx.exec();
                            ctx.bump("sub_ontology_refused_with_root_among_the_leaves", 1);
                        }
                        Ok(Err(e)) => {
                            ctx.exec();
                            ctx.violation("Ontology::sub_ontology", "[sub_ontology] refused although every leaf is below root", json!({"case": case(), "observed": e}));
                        }
                        Err(p) => {
                            ctx.exec();
                            ctx.violation("Ontology::sub_ontology", "[sub_ontology] panics", json!({"case": case(), "observed": p}));
                        }
                    }
                }
            }
            ctx.sample(|| json!({"dag": d.describe(), "ids": &POOL[..n], "roots": n}));
        }
    }
    // ---- 5b. sub_ontology of large, decoded and flagged sources, and of a sub-ontology: the copy is made in hash
    // order from whatever the source's constructor left behind
    {
        let family = super::common::large_family();
        ctx.space("sub_ontology/large-sources", &format!("{} large shapes x source from the Builder / decoded from binary v3 (descending records, the middle term flagged obsolete and replaced) x root HP:1 / HP:118 x leaves {{last}}, {{last, middle}} (where below root), and the sub-ontology of each result for its last term: consistent with its own direct links incl. child_of / parent_of for every ordered pair", family.len()));
        for (base, what) in &family {
            if !ctx.take() {
                continue;
            }
            ctx.state();
            ctx.nontrivial();
            let n = base.terms.len();
            let r = RefOnt::derive(base);
            let (last, middle) = (base.terms[n - 1].id, base.terms[n / 2].id);
            let mut flagged = base.clone();
            flagged.terms[n / 2].obsolete = true;
            flagged.terms[n / 2].replacement = Some(118);
            flagged.terms.reverse();
            flagged.edges.reverse();
            ctx.transitions(2 * base.n_steps());
            let sources = [("Builder", drive::build(base, Mode::Minimal).ok()), ("binary v3", drive::from_bytes(&encode::encode(&flagged, &EncOpts::v(3))).ok().and_then(|x| x.ok()))];
            for (sname, src) in &sources {
                let Some(src) = src else {
                    ctx.exec();
                    ctx.violation("Builder", &format!("[{sname}] construction fails on valid facts"), json!({"shape": what}));
                    continue;
                };
                for root in [1u32, 118] {
                    for leaves in [vec![last], vec![last, middle]] {
                        if leaves.iter().any(|l| !r.terms[l].ancestors.contains(&root)) {
                            // (a property of the shape, not of the crate: such a call is not part of this space)
                            ctx.bump("not applicable: large-source leaf set not below the chosen root", 1);
                            continue;
                        }
                        ctx.transitions(1 + leaves.len() as u64);
                        let case = || json!({"source": what, "source_built_by": sname, "root": root, "leaves": leaves});
                        let sub_of = |o: &Ontology, ls: &[u32]| crate::ctx::guard(|| o.sub_ontology(o.hpo(root).unwrap(), ls.iter().map(|l| o.hpo(*l).unwrap()).collect::<Vec<_>>()).map_err(|e| e.to_string()));
                        match sub_of(src, &leaves) {
                            Ok(Ok(sub)) => {
                                if let Some(own) = self_consistent_model(ctx, &sub, "sub_ontology", Mode::Minimal, &case) {
                                    check_pairs(ctx, &sub, &own, "sub_ontology", &case);
                                    // ... and a sub-ontology of the result (leaf below root in the result's own links)
                                    if !own.terms.get(&last).is_some_and(|t| t.ancestors.contains(&root)) {
                                        // (the first result lost the leaf or its path to root: that is C14's finding; the
                                        // second call has no valid arguments then - counted, not silent)
                                        ctx.bump("skipped: sub_ontology of a sub_ontology, the leaf is not below root in the first result's own links", 1);
                                    } else {
                                        match sub_of(&sub, &[last]) {
                                            Ok(Ok(sub2)) => {
                                                if let Some(own2) = self_consistent_model(ctx, &sub2, "sub_ontology of a sub_ontology", Mode::Minimal, &case) {
                                                    check_pairs(ctx, &sub2, &own2, "sub_ontology of a sub_ontology", &case);
                                                }
                                            }
                                            other => {
                                                ctx.exec();
                                                ctx.violation("Ontology::sub_ontology", "[sub_ontology of a sub_ontology] refused or panics although the leaf is below root", json!({"case": case(), "observed": format!("{:?}", other.map(|r| r.map(|_| ())))}));
                                            }
                                        }
                                    }
                                }
                            }
                            other => {
                                ctx.exec();
                                ctx.violation("Ontology::sub_ontology", "[sub_ontology] refused or panics although every leaf is below root", json!({"case": case(), "observed": format!("{:?}", other.map(|r| r.map(|_| ())))}));
                            }
                        }
                    }
                }
            }
            ctx.sample(|| json!({"shape": what, "n_terms": n, "last": last, "middle": middle}));
        }
    }
    // ---- very deep shapes (beyond 512 / 1000 / 1024 / 2048 levels): ancestors-first and descendants-first supply
    // order through the Builder, descendants-first through the decoder
    {
        let family = super::common::very_deep_family();
        ctx.space("very-deep/builder+binary", &format!("{} shapes (chains of 1100 and 2100 terms with a shortcut, a ladder of 14 levels) x ascending / descending supply order via Builder, descending via binary v3: observation against the model, child_of / parent_of for every ordered pair of about 25 selected terms (both ends, branch points, depths around 255 ... 2049)", family.len()));
        for (base, what) in &family {
            if !ctx.take() {
                continue;
            }
            ctx.state();
            ctx.nontrivial();
            let r = RefOnt::derive(base);
            // terms whose pairs are asked for child_of / parent_of: both ends, the branch points, the neighbours of
            // every round-number depth (ancestor sets of 255 ... 2100 ids)
            let at: Vec<u32> = super::common::very_deep_positions(base.terms.len()).iter().map(|k| base.terms[*k].id).collect();
            let mut desc = base.clone();
            desc.terms.reverse();
            desc.edges.reverse();
            for (f, oname) in [(base, "ascending (ancestors first)"), (&desc, "descending (descendants first)")] {
                ctx.transitions(f.n_steps());
                match drive::build(f, Mode::Minimal) {
                    Ok(ont) => {
                        let case = || json!({"shape": what, "order": oname});
                        check_against_model(ctx, &ont, &r, Mode::Minimal, "builder", &case);
                        check_pairs_at(ctx, &ont, &r, &at, "builder", &case);
                    }
                    Err(e) => {
                        ctx.exec();
                        ctx.violation("Builder", "[builder] construction fails on valid facts", json!({"shape": what, "order": oname, "observed": e}));
                    }
                }
            }
            ctx.transitions(desc.n_steps());
            match drive::from_bytes(&encode::encode(&desc, &EncOpts::v(3))) {
                Ok(Ok(ont)) => {
                    let case = || json!({"shape": what, "order": "descending"});
                    check_against_model(ctx, &ont, &r, Mode::Defaults, "binary v3", &case);
                    check_pairs_at(ctx, &ont, &r, &at, "binary v3", &case);
                }
                other => {
                    ctx.exec();
                    ctx.violation("Ontology::from_bytes", "[binary v3] rejects or panics on a file laid out as documented", json!({"shape": what, "observed": format!("{:?}", other.map(|r| r.map(|_| ())))}));
                }
            }
            ctx.sample(|| json!({"shape": what, "n_terms": base.terms.len()}));
        }
    }
    // ---- sequences of ontologies built one after the other at the same address
    super::common::ontology_sequences(ctx, "builder", Mode::Minimal, &mut |ont: &Ontology, r: &RefOnt| obs_and_pairs(ont, r, Mode::Minimal));
    // ---- two different ontologies alive at the same time (the sequences above drop the first before the second is
    // built): state shared between instances - a memo keyed by term id that is reset when an ontology is dropped -
    // shows only here
    {
        let dags = all_dags(3);
        ctx.space("builder/two-ontologies-alive/D3", &format!("{} x {} ordered pairs (A, B) of labelled DAGs over {:?}: A built, B built while A is alive, then A, B, A queried, A dropped, B queried; observation against the model and child_of / parent_of for every ordered pair after every step", dags.len(), dags.len(), &POOL_ROOTS[..3]));
        for da in &dags {
            if !ctx.take() {
                continue;
            }
            ctx.state();
            let fa = Facts::from_dag(da, &POOL_ROOTS);
            let ra = RefOnt::derive(&fa);
            for db in &dags {
                let fb = Facts::from_dag(db, &POOL_ROOTS);
                let rb = RefOnt::derive(&fb);
                if fa.edges != fb.edges {
                    ctx.nontrivial();
                }
                ctx.transitions(fa.n_steps() + fb.n_steps());
                let (Ok(a), Ok(b)) = (drive::build(&fa, Mode::Minimal), drive::build(&fb, Mode::Minimal)) else {
                    ctx.exec();
                    ctx.violation("Builder", "[builder] construction fails on valid facts", json!({"first": fa.to_json(), "second": fb.to_json()}));
                    continue;
                };
                let mut a = Some(a);
                for (step, which) in ["first", "second", "first", "second"].into_iter().enumerate() {
                    if step == 3 {
                        drop(a.take());
                    }
                    let (ont, r, f) = if which == "first" { (a.as_ref().unwrap(), &ra, &fa) } else { (&b, &rb, &fb) };
                    ctx.exec();
                    ctx.validated();
                    let what = ["first ontology, the second one alive", "second ontology, the first one alive", "first ontology again", "second ontology after the first one was dropped"][step];
                    match crate::ctx::guard(|| obs_and_pairs(ont, r, Mode::Minimal)) {
                        Ok(None) => {}
                        Ok(Some((site, sig, det))) => {
                            ctx.violation(&site, &format!("[two ontologies alive] {sig}"), json!({"queried": f.to_json(), "queried_as": what, "first": fa.to_json(), "second": fb.to_json(), "difference": det}));
                            break;
                        }
                        Err(p) => {
                            ctx.violation("read API", "[two ontologies alive] panics", json!({"queried": f.to_json(), "queried_as": what, "first": fa.to_json(), "second": fb.to_json(), "observed": p}));
                            break;
                        }
                    }
                }
            }
            ctx.sample(|| json!({"A": da.describe(), "partners": dags.len(), "ids": &POOL_ROOTS[..3]}));
        }
    }
    // ---- 6. (last, because of the garbage it leaves in the allocator) one very large ontology: 70 000 terms in heap shape (term k is_a term k/2), supplied in
    // ascending order and in an order that interleaves the two halves; beyond every 16-bit table size
    {
        ctx.space("huge/heap-70000", "70 000 terms, term k is_a term k/2 (ids = positions 1..=70000), Builder in ascending and in interleaved-halves order, and decoded from a v3 file (HP:118 is term 118 of the heap) in descending record order: observation against the model, child_of / parent_of for every ordered pair of 24 terms along two root-to-leaf routes and across the 16-bit border");
        for variant in 0..3 {
            if !ctx.take() {
                continue;
            }
            ctx.state();
            ctx.nontrivial();
            let n = 70_000u32;
            let mut f = Facts::default();
            let order: Vec<u32> = match variant {
                0 => (1..=n).collect(),
                1 => (1..=n / 2).flat_map(|k| [k, k + n / 2]).collect(),
                _ => (1..=n).rev().collect(),
            };
            for k in &order {
                f.terms.push(Facts::term(*k, &format!("T{k}")));
            }
            for k in 2..=n {
                f.edges.push((k, k / 2));
            }
            let r = RefOnt::derive(&f);
            ctx.transitions(f.n_steps());
            if variant == 2 {
                f.version = (2024, 2, 29);
                f.edges.reverse();
                let r = RefOnt { version: f.version, ..r };
                match drive::from_bytes(&encode::encode(&f, &EncOpts::v(3))) {
                    Ok(Ok(ont)) => {
                        let case = || json!({"shape": "heap of 70000 terms: term k is_a term k/2", "record_order": "descending"});
                        check_against_model(ctx, &ont, &r, Mode::Defaults, "binary v3", &case);
                        check_pairs_at(ctx, &ont, &r, &HEAP_PAIRS, "binary v3", &case);
                    }
                    other => {
                        ctx.exec();
                        ctx.violation("Ontology::from_bytes", "[binary v3] rejects or panics on a file laid out as documented", json!({"shape": "heap of 70000 terms", "observed": format!("{:?}", other.map(|r| r.map(|_| ())))}));
                    }
                }
                ctx.sample(|| json!({"shape": "heap", "n_terms": n, "variant": "decoded from binary v3"}));
                drop(r);
                drop(f);
                crate::ctx::trim_heap();
                continue;
            }
            match drive::build(&f, Mode::Minimal) {
                Err(e) => {
                    ctx.exec();
                    ctx.violation("Builder", "[builder] construction fails on valid facts", json!({"shape": "heap of 70000 terms", "observed": e}));
                }
                Ok(ont) => {
                    let case = || json!({"shape": "heap of 70000 terms: term k is_a term k/2", "term_order": if variant == 0 { "ascending" } else { "k, k+35000, k+1, ..." }});
                    check_against_model(ctx, &ont, &r, Mode::Minimal, "builder", &case);
                    check_pairs_at(ctx, &ont, &r, &HEAP_PAIRS, "builder", &case);
                }
            }
            ctx.sample(|| json!({"shape": "heap", "n_terms": n, "variant": variant}));
            drop(r);
            drop(f);
            crate::ctx::trim_heap();
        }
    }

    let _ = Sections::split; // (splitter is exercised in C08)
}
