//! C15 - rejected builder calls have no effect; built ontologies have no dangling ids.

use crate::ctx::{guard, Ctx};
use crate::model::{Facts, Kind, Mode, RefOnt};
use crate::obs::Obs;
use hpo::builder::Builder;
use hpo::Ontology;
use serde_json::{json, Value};

#[derive(Clone, Copy, Debug, PartialEq, Eq)]
enum Op3 {
    Annotate(Kind, u32, u32),
    Add(Kind, u32),
    /// annotate with ANOTHER name than the record's (only issued with an absent term: the call fails and must not
    /// rename the record either)
    AnnotateOtherName(Kind, u32, u32),
}

fn rec_name(kind: Kind, id: u32) -> String {
    format!("{}{}", kind.name(), id)
}

impl Op3 {
    fn describe(&self) -> String {
        match self {
            Op3::Annotate(k, r, t) => format!("annotate_{}({r}, {t})", k.name()),
            Op3::Add(k, r) => format!("add_{}({r})", k.name()),
            Op3::AnnotateOtherName(k, r, t) => format!("annotate_{}({r}, name \"other\", {t})", k.name()),
        }
    }
    fn names_absent(&self, present: &[u32]) -> bool {
        match self {
            Op3::Annotate(_, _, t) | Op3::AnnotateOtherName(_, _, t) => !present.contains(t),
            Op3::Add(..) => false,
        }
    }
}

thread_local! {
    /// the largest term id named by the fallible Builder call in flight (0 outside such a call)
    static IN_FLIGHT: std::cell::Cell<u32> = std::cell::Cell::new(0);
}

/// ids the arena's table does not cover: what a call does with them - refuse with an error or panic like
/// `new_term` does - is the same refusal as far as this property goes
const BEYOND_ID_SPACE: u32 = 10_000_000;

/// Execute one history on the real Builder. Returns the Ok/Err pattern of the fallible calls and the ontology.
fn execute(terms: &[(u32, &str)], p2: &[(u32, u32)], p3: &[Op3]) -> (Vec<bool>, Vec<bool>, Ontology) {
    IN_FLIGHT.with(|c| c.set(0));
    let mut b = Builder::new();
    for (id, name) in terms {
        b.new_term(name, *id);
    }
    let mut b = b.terms_complete();
    let mut r2 = vec![];
    for &(p, c) in p2 {
        IN_FLIGHT.with(|f| f.set(p.max(c)));
        r2.push(b.add_parent(p, c).is_ok());
        IN_FLIGHT.with(|f| f.set(0));
    }
    let mut b = b.connect_all_terms();
    let mut r3 = vec![];
    for op in p3 {
        if let Op3::Annotate(_, _, t) | Op3::AnnotateOtherName(_, _, t) = op {
            IN_FLIGHT.with(|f| f.set(*t));
        }
        match *op {
            Op3::Annotate(Kind::Gene, r, t) => r3.push(b.annotate_gene(r.into(), &rec_name(Kind::Gene, r), t.into()).is_ok()),
            Op3::Annotate(Kind::Omim, r, t) => r3.push(b.annotate_omim_disease(r.into(), &rec_name(Kind::Omim, r), t.into()).is_ok()),
            Op3::Annotate(Kind::Orpha, r, t) => r3.push(b.annotate_orpha_disease(r.into(), &rec_name(Kind::Orpha, r), t.into()).is_ok()),
            Op3::AnnotateOtherName(Kind::Gene, r, t) => r3.push(b.annotate_gene(r.into(), "other", t.into()).is_ok()),
            Op3::AnnotateOtherName(Kind::Omim, r, t) => r3.push(b.annotate_omim_disease(r.into(), "other", t.into()).is_ok()),
            Op3::AnnotateOtherName(Kind::Orpha, r, t) => r3.push(b.annotate_orpha_disease(r.into(), "other", t.into()).is_ok()),
            Op3::Add(Kind::Gene, r) => {
                b.add_gene(&rec_name(Kind::Gene, r), r.into());
                r3.push(true);
            }
            Op3::Add(Kind::Omim, r) => {
                b.add_omim_disease(&rec_name(Kind::Omim, r), r.into());
                r3.push(true);
            }
            Op3::Add(Kind::Orpha, r) => {
                b.add_orpha_disease(&rec_name(Kind::Orpha, r), r.into());
                r3.push(true);
            }
        }
        IN_FLIGHT.with(|f| f.set(0));
    }
    let ont = b.calculate_information_content().expect("information content").build_minimal();
    (r2, r3, ont)
}

fn history_json(terms: &[(u32, &str)], p2: &[(u32, u32)], p3: &[Op3]) -> Value {
    json!({"terms_present": terms.iter().map(|t| t.0).collect::<Vec<_>>(), "every_other_term_id": "absent",
        "phase AllTerms": p2.iter().map(|(p, c)| format!("add_parent(parent={p}, child={c})")).collect::<Vec<_>>(),
        "phase ConnectedTerms": p3.iter().map(|o| o.describe()).collect::<Vec<_>>()})
}

fn rust_of(terms: &[(u32, &str)], p2: &[(u32, u32)], p3: &[Op3]) -> String {
    let mut s = String::from("let mut b = hpo::builder::Builder::new();\n");
    for (id, name) in terms {
        s.push_str(&format!("b.new_term(\"{name}\", {id}u32);\n"));
    }
    s.push_str("let mut b = b.terms_complete();\n");
    for (p, c) in p2 {
        s.push_str(&format!("let _ = b.add_parent({p}u32, {c}u32);\n"));
    }
    s.push_str("let mut b = b.connect_all_terms();\n");
    for op in p3 {
        match op {
            Op3::Annotate(k, r, t) => {
                let f = match k {
                    Kind::Gene => "annotate_gene",
                    Kind::Omim => "annotate_omim_disease",
                    Kind::Orpha => "annotate_orpha_disease",
                };
                s.push_str(&format!("let _ = b.{f}({r}u32.into(), \"{}\", {t}u32.into());\n", rec_name(*k, *r)));
            }
            Op3::AnnotateOtherName(k, r, t) => {
                let f = match k {
                    Kind::Gene => "annotate_gene",
                    Kind::Omim => "annotate_omim_disease",
                    Kind::Orpha => "annotate_orpha_disease",
                };
                s.push_str(&format!("let _ = b.{f}({r}u32.into(), \"other\", {t}u32.into());\n"));
            }
            Op3::Add(k, r) => {
                let f = match k {
                    Kind::Gene => "add_gene",
                    Kind::Omim => "add_omim_disease",
                    Kind::Orpha => "add_orpha_disease",
                };
                s.push_str(&format!("b.{f}(\"{}\", {r}u32.into());\n", rec_name(*k, *r)));
            }
        }
    }
    s.push_str("let ont = b.calculate_information_content().unwrap().build_minimal();\nfor t in &ont { let _ = t.children().count(); let _ = t.parents().count(); let _ = t.genes().count(); }\nfor g in ont.genes() { let _ = g.to_hpo_set(&ont).iter().count(); }\n");
    s
}

fn check_history(ctx: &mut Ctx, p2: &[(u32, u32)], p3: &[Op3]) {
    check_history_on(ctx, &[(1u32, "T1"), (2u32, "T2")], p2, p3)
}

fn check_history_on(ctx: &mut Ctx, terms: &[(u32, &str)], p2: &[(u32, u32)], p3: &[Op3]) {
    let present: Vec<u32> = terms.iter().map(|t| t.0).collect();
    ctx.exec();
    ctx.validated();
    ctx.transitions((2 + p2.len() + p3.len()) as u64);
    let case = || json!({"history": history_json(terms, p2, p3), "rust": rust_of(terms, p2, p3)});
    let res = guard(|| execute(terms, p2, p3));
    let (r2, r3, ont) = match res {
        Ok(x) => x,
        Err(p) => {
            // a call naming an id beyond the id space that panics (as new_term does for such ids) has refused the
            // call; nothing was built, so there is nothing to judge
            if IN_FLIGHT.with(|f| f.get()) >= BEYOND_ID_SPACE {
                ctx.bump("no verdict: history ended by a panicking call that names an id beyond the id space", 1);
                return;
            }
            ctx.violation("Builder", "a builder call panics", json!({"case": case(), "observed": p}));
            return;
        }
    };
    // (a) a call whose terms all exist succeeds
    // (a call that REPEATS an earlier successful call may be refused as well - a duplicate-link error is not
    // excluded by the property; it then simply counts as a failing call that must have no effect)
    // A call naming an absent term that returns Ok instead of an error is not judged by its return value: the
    // property speaks of calls that DO return an error. Such a call states no fact (below), so whatever it did
    // must not show in the result.
    for (i, &(p, c)) in p2.iter().enumerate() {
        let want_ok = present.contains(&p) && present.contains(&c);
        let repeat = p2[..i].iter().enumerate().any(|(j, q)| *q == (p, c) && r2[j]);
        if !r2[i] && want_ok && !repeat {
            ctx.violation("Builder::add_parent", "returns an error although both terms exist", json!({"case": case(), "call": format!("add_parent({p},{c})")}));
            return;
        }
        if r2[i] && !want_ok {
            ctx.bump("no verdict: return value of an add_parent call naming an absent term that returned Ok", 1);
        }
    }
    for (i, op) in p3.iter().enumerate() {
        let want_ok = !op.names_absent(&present);
        let repeat = p3[..i].iter().enumerate().any(|(j, q)| q == op && r3[j]);
        if !r3[i] && want_ok && !repeat {
            ctx.violation("Builder::annotate_*", "returns an error although the term exists", json!({"case": case(), "call": op.describe()}));
            return;
        }
        if r3[i] && !want_ok {
            ctx.bump("no verdict: return value of an annotate call naming an absent term that returned Ok", 1);
        }
    }
    // (b) referentially closed: the whole read API can be walked
    let obs = match Obs::of(&ont) {
        Ok(o) => o,
        Err(i) => {
            ctx.violation(&i.site, "read API panics or is inconsistent after a history with failing calls (dangling id)", json!({"case": case(), "observed": i.what}));
            return;
        }
    };
    // (c) equals the ontology described by the successful calls alone (model) ...
    let mut f = Facts::default();
    f.terms = terms.iter().map(|(id, name)| Facts::term(*id, name)).collect();
    for (i, &(p, c)) in p2.iter().enumerate() {
        if r2[i] && present.contains(&p) && present.contains(&c) {
            f.edges.push((c, p));
        }
    }
    // which accepted calls naming an absent term left a trace that is tolerated (they stay in the differential run
    // below; every other accepted call of that kind is removed from it like a failing one)
    let mut traced = vec![false; p3.len()];
    // the record is stated by a call whose term exists (or by add_*) that succeeded - then its presence is no trace
    let stated = |k: Kind, r: u32| {
        p3.iter().enumerate().any(|(j, q)| {
            r3[j]
                && match *q {
                    Op3::Annotate(k2, r2_, t) => k2 == k && r2_ == r && present.contains(&t),
                    Op3::Add(k2, r2_) => k2 == k && r2_ == r,
                    Op3::AnnotateOtherName(..) => false,
                }
        })
    };
    for (i, op) in p3.iter().enumerate() {
        if r3[i] {
            match *op {
                Op3::Annotate(k, r, t) if present.contains(&t) => f.anns.push(Facts::ann(k, r, &rec_name(k, r), Some(t))),
                Op3::Add(k, r) => f.anns.push(Facts::ann(k, r, &rec_name(k, r), None)),
                // an annotate call naming an absent term that returned Ok: no link; whether such a call registers
                // the (bare) record is left to the builder - the model follows what the ontology shows (counted)
                Op3::Annotate(k, r, _) | Op3::AnnotateOtherName(k, r, _) => {
                    if obs.recs[k.idx()].iter().any(|x| x.id == r) {
                        f.anns.push(Facts::ann(k, r, &rec_name(k, r), None));
                        if !stated(k, r) {
                            traced[i] = true;
                            ctx.bump("no verdict: bare record left by an accepted annotate call naming an absent term", 1);
                        }
                    }
                }
            }
        }
    }
    // (... and if that accepted call carried the other name, either name is the record's)
    for (i, op) in p3.iter().enumerate() {
        if let (true, Op3::AnnotateOtherName(k, r, _)) = (r3[i], *op) {
            if obs.recs[k.idx()].iter().any(|x| x.id == r && x.name == "other") {
                traced[i] = true;
                ctx.bump("no verdict: record renamed by an accepted annotate call naming an absent term", 1);
                for a in f.anns.iter_mut().filter(|a| a.kind == k && a.id == r) {
                    a.name = "other".into();
                }
            }
        }
    }
    let model = RefOnt::derive(&f);
    let exp = Obs::expected(&model, Mode::Minimal);
    if let Some((site, sig, det)) = obs.diff(&exp, false) {
        ctx.violation(&site, &format!("a failing call left an effect, or a successful one was lost: {sig}"), json!({"case": case(), "difference": det}));
        return;
    }
    // ... and the real Builder fed with the successful calls only (differential, exact)
    // (a call naming an absent term that returned Ok is removed as well, unless it left one of the two tolerated
    // traces above: it stated no fact, so the history without it must give the same ontology - keeping it would
    // compare the history with itself)
    let ok2: Vec<(u32, u32)> = p2.iter().enumerate().filter(|(i, x)| r2[*i] && present.contains(&x.0) && present.contains(&x.1)).map(|(_, x)| *x).collect();
    let ok3: Vec<Op3> = p3.iter().enumerate().filter(|(i, x)| r3[*i] && (!x.names_absent(&present) || traced[*i])).map(|(_, x)| *x).collect();
    if ok2.len() != p2.len() || ok3.len() != p3.len() {
        ctx.nontrivial();
        match guard(|| execute(terms, &ok2, &ok3)) {
            Ok((_, _, clean)) => match Obs::of(&clean) {
                Ok(cobs) => {
                    if let Some((site, sig, det)) = obs.diff(&cobs, true) {
                        ctx.violation(&site, &format!("history with failing calls differs from the same history without them: {sig}"), json!({"case": case(), "difference": det}));
                    }
                }
                Err(i) => ctx.violation(&i.site, "read API inconsistent on the ontology built from the successful calls", json!({"case": case(), "observed": i.what})),
            },
            Err(_) if IN_FLIGHT.with(|f| f.get()) >= BEYOND_ID_SPACE => ctx.bump("no verdict: history ended by a panicking call that names an id beyond the id space", 1),
            Err(p) => ctx.violation("Builder", "a builder call panics", json!({"case": case(), "observed": p})),
        }
    }
    ctx.outcome(obs.fingerprint());
}

/// An ontology that a loader RETURNED for an input naming an absent term: it must be walkable, must not hand the
/// absent id out, and must be consistent with the direct facts it reports itself (a half-applied failing call -
/// the record lists a term that does not list the record, an inherited link that stops half-way - is an effect of
/// the failing call). `valid_parts` are the observations the valid facts describe without the offending pair /
/// without the offending record; anything else that comes back is counted, not judged (the statement demands
/// closure only).
fn judge_returned(ctx: &mut Ctx, ont: &Ontology, site: &str, what: &str, absent: u32, valid_parts: &[Facts], case: &dyn Fn() -> Value) {
    ctx.bump(&format!("no verdict on the return value: {site} returned an ontology for {what}"), 1);
    let o = match Obs::of(ont) {
        Err(i) => {
            ctx.violation(site, &format!("returns an ontology with a dangling term id (read API panics) for {what}"), json!({"case": case(), "observed": i.what}));
            return;
        }
        Ok(o) => o,
    };
    if o.recs.iter().any(|rs| rs.iter().any(|r| r.terms.contains(&absent))) {
        ctx.violation(site, &format!("returns an ontology whose record lists a term that does not exist ({what})"), json!({"case": case()}));
        return;
    }
    let n_violations = |c: &Ctx| c.violations.values().map(|v| v.count).sum::<u64>();
    let before = n_violations(ctx);
    super::c01::self_consistent(ctx, ont, &format!("{site} given {what}"), Mode::Defaults, case);
    if n_violations(ctx) != before || valid_parts.is_empty() {
        return;
    }
    let matches = valid_parts.iter().any(|f| o.diff(&Obs::expected(&RefOnt::derive(f), Mode::Defaults), false).is_none());
    if !matches {
        ctx.bump(&format!("no verdict: {site} returned an ontology that is neither the valid facts without the offending link nor those without the offending record"), 1);
    }
}

fn binom(n: u64, k: u64) -> u64 {
    let mut r = 1u64;
    for i in 0..k {
        r = r * (n - i) / (i + 1);
    }
    r
}

fn sequences<T: Copy>(alphabet: &[T], max_len: usize) -> Vec<Vec<T>> {
    let mut out: Vec<Vec<T>> = vec![vec![]];
    let mut frontier: Vec<Vec<T>> = vec![vec![]];
    for _ in 0..max_len {
        let mut next = vec![];
        for s in &frontier {
            for a in alphabet {
                let mut t = s.clone();
                t.push(*a);
                next.push(t);
            }
        }
        out.extend(next.iter().cloned());
        frontier = next;
    }
    out
}

pub fn run(ctx: &mut Ctx) {
    run_spaces(ctx);
    // refusals forgiven by c10::decode_tolerant (a file with non-ascending ids inside a record refused, the same facts
    // with ascending lists accepted)
    let n = super::c10::take_ascending_retries();
    if n > 0 {
        ctx.bump("refused: ids inside a record not ascending, the same facts with ascending lists accepted", n);
    }
}

fn run_spaces(ctx: &mut Ctx) {
    let thorough = ctx.tier.thorough();
    ctx.rule = "case = one AllTerms-phase call sequence combined with every ConnectedTerms-phase call sequence up to the depth bound (terms 1,2 present, 3 absent); every history is executed on the real Builder and compared with the model of its successful calls and with the Builder fed the successful calls only; distinct by construction; non-trivial = history containing at least one failing call".into();
    ctx.assumptions = vec![
        "add_parent(2,1) together with add_parent(1,2) would form a cycle and is outside the quantifier (acyclic graphs)".into(),
        "one name per record id".into(),
        "a call whose terms all exist must succeed (a repeat of an earlier call may be refused); a call naming an absent term that returns Ok instead of an error states no fact: no link may result from it, and the history without it must build the same ontology (whether an annotate call of that kind registers the bare record, or renames it, is left open and counted; only then the call stays in the differential run)".into(),
        "a call naming a term id >= 10^7 that panics (as new_term does for such ids) counts as refused; the history ends there without a verdict".into(),
        "new_term called twice for one id: which call counts is left open (stored once, under one of the names)".into(),
        "decoder space: Ontology::from_bytes documents HpoError::DoesNotExist for invalid references to terms; parent records naming absent terms are not included (the documentation only promises a possible panic there)".into(),
    ];
    let p2_alpha: [(u32, u32); 5] = [(1, 2), (1, 3), (3, 1), (2, 3), (3, 2)];
    let mut p3_alpha: Vec<Op3> = vec![];
    for k in [Kind::Gene, Kind::Omim, Kind::Orpha] {
        for r in [7u32, 8] {
            for t in [1u32, 2, 3] {
                p3_alpha.push(Op3::Annotate(k, r, t));
            }
        }
        p3_alpha.push(Op3::Add(k, 7));
    }
    // the failing call that also carries another name (after the 21 symbols, so the state-graph space keeps its 21)
    let mut p3_hist = p3_alpha.clone();
    for k in [Kind::Gene, Kind::Omim, Kind::Orpha] {
        p3_hist.push(Op3::AnnotateOtherName(k, 7, 3));
    }
    let d3 = if thorough { 4 } else { 3 };
    let p2_seqs = sequences(&p2_alpha, 3);
    let p3_seqs = sequences(&p3_hist, d3);
    ctx.space("histories/AllTerms<=3 x ConnectedTerms", &format!("{} add_parent sequences (length <= 3 over 5 calls) x {} annotate/add sequences (length <= {d3} over 24 calls, three of them failing calls that carry another name){}", p2_seqs.len(), p3_seqs.len(), if thorough { "" } else { "; quick tier: length-3 add_parent sequences are combined with annotate/add sequences of length <= 2" }));
    // one case per (phase-2 sequence, block of phase-3 sequences)
    let block = 512usize;
    // quick tier: AllTerms sequences of length 3 are combined with ConnectedTerms sequences of length <= 2 only
    // (length <= 2 x length <= 3 and length <= 3 x length <= 2 are complete; the full product is the thorough tier)
    let short_len = 1 + p3_hist.len() + p3_hist.len() * p3_hist.len();
    for p2 in &p2_seqs {
        let limit = if !thorough && p2.len() == 3 { short_len } else { p3_seqs.len() };
        let mut start = 0;
        while start < limit {
            let end = (start + block).min(limit);
            if ctx.take() {
                ctx.state();
                for p3 in &p3_seqs[start..end] {
                    check_history(ctx, p2, p3);
                }
                ctx.sample(|| json!({"AllTerms": p2.iter().map(|(p, c)| format!("add_parent({p},{c})")).collect::<Vec<_>>(), "ConnectedTerms sequences": [start, end], "example": p3_seqs[end - 1].iter().map(|o| o.describe()).collect::<Vec<_>>()}));
            }
            start = end;
            if ctx.out_of_time() {
                break;
            }
        }
    }

    // ---- add_parent calls in which BOTH ids are absent (the same absent id twice, two different absent ids)
    {
        let p2_both: [(u32, u32); 7] = [(1, 2), (1, 3), (3, 1), (2, 3), (3, 2), (3, 3), (3, 4)];
        let a: Vec<Vec<(u32, u32)>> = sequences(&p2_both, 2).into_iter().filter(|q| q.iter().any(|c| *c == (3, 3) || *c == (3, 4))).collect();
        let b = sequences(&p3_hist, 2);
        ctx.space("histories/both-ids-absent", &format!("{} add_parent sequences (<= 2 over 7 calls, at least one call naming two absent ids) x {} annotate/add sequences (<= 2 over 24 calls)", a.len(), b.len()));
        for p2 in &a {
            if !ctx.take() {
                continue;
            }
            ctx.state();
            for p3 in &b {
                check_history(ctx, p2, p3);
            }
            ctx.sample(|| json!({"AllTerms": p2.iter().map(|(p, c)| format!("add_parent({p},{c})")).collect::<Vec<_>>()}));
        }
    }

    // ---- the same histories with special absent ids: HP:0000000 (the arena's internal placeholder slot), the
    // last id of the id table, and ids beyond the table (any u32 is a legal HpoTermId)
    // ... and ids that fold onto the present id 1 when a key is narrowed to 20, 23, 24 or 31 bits
    // (... or to 8 or 16 bits: 257, 65 537)
    for absent in [0u32, 9_999_999, 10_000_000, u32::MAX, 1_048_577, 8_388_609, 16_777_217, 2_147_483_649, 257, 65_537, 10_000_001, 20_000_002, 4_290_000_001] {
        let p2_abs: [(u32, u32); 5] = [(1, 2), (1, absent), (absent, 1), (2, absent), (absent, 2)];
        let mut p3_abs: Vec<Op3> = vec![];
        for k in [Kind::Gene, Kind::Omim, Kind::Orpha] {
            for r in [7u32, 8] {
                for t in [1u32, 2, absent] {
                    p3_abs.push(Op3::Annotate(k, r, t));
                }
            }
            p3_abs.push(Op3::Add(k, 7));
        }
        let a = sequences(&p2_abs, 2);
        let b = sequences(&p3_abs, 2);
        let name = if absent == 0 { "histories/absent-term-is-id-0".to_string() } else { format!("histories/absent-term-is-id-{absent}") };
        ctx.space(&name, &format!("{} add_parent sequences (<= 2) x {} annotate/add sequences (<= 2) with terms 1, 2 present and term id {absent} absent", a.len(), b.len()));
        for p2 in &a {
            if !ctx.take() {
                continue;
            }
            ctx.state();
            for p3 in &b {
                check_history(ctx, p2, p3);
            }
            ctx.sample(|| json!({"AllTerms": p2.iter().map(|(p, c)| format!("add_parent({p},{c})")).collect::<Vec<_>>(), "absent_term": absent}));
        }
    }

    // ---- a parent that already has several children when calls naming absent children arrive: the absent ids lie
    // below, between and above the ids of the children that exist (a rejected call must leave the parent's child
    // list exactly as it was - members, order of the sorted list, no duplicates after a later valid repeat)
    {
        let terms4: [(u32, &str); 4] = [(1, "T1"), (10, "T10"), (20, "T20"), (30, "T30")];
        let p2_wide: [(u32, u32); 10] = [(1, 10), (1, 20), (1, 30), (1, 5), (1, 15), (1, 25), (1, 35), (10, 30), (10, 25), (15, 30)];
        let d = if thorough { 5 } else { 4 };
        let a = sequences(&p2_wide, d);
        let b: Vec<Vec<Op3>> = vec![
            vec![],
            vec![Op3::Annotate(Kind::Gene, 7, 30)],
            vec![Op3::Annotate(Kind::Gene, 7, 15), Op3::Annotate(Kind::Gene, 7, 20)],
            vec![Op3::Annotate(Kind::Omim, 7, 20), Op3::Annotate(Kind::Omim, 7, 25), Op3::Annotate(Kind::Orpha, 8, 10)],
        ];
        ctx.space("histories/parent-with-several-children", &format!("terms 1, 10, 20, 30 present, every other id absent: {} add_parent sequences (<= {d} over 10 calls: children 10, 20, 30 and absent 5, 15, 25, 35 below term 1, children 30 and absent 25 below term 10, absent parent 15) x 4 annotate sequences (none; valid; absent term then valid; valid, absent, valid)", a.len()));
        let block = 64usize;
        for chunk in a.chunks(block) {
            if !ctx.take() {
                continue;
            }
            ctx.states(chunk.len() as u64);
            for p2 in chunk {
                for p3 in &b {
                    check_history_on(ctx, &terms4, p2, p3);
                }
            }
            ctx.sample(|| json!({"AllTerms, first of the block": chunk[0].iter().map(|(p, c)| format!("add_parent({p},{c})")).collect::<Vec<_>>()}));
        }
    }

    // ---- lists at the inline capacity of 30 when the failing call arrives: term 1 already has 29 ... 32 children
    // (a gene / disease already lists 29 ... 32 terms) and then calls naming an absent term below, between and above
    // the members arrive, mixed with a valid call that appends a member and a valid repeat of a middle member. An
    // "insert, then undo on failure" that is right for the inline list and wrong for the spilled one (or the other way
    // round) shows here and nowhere else.
    {
        // present: 1 and the even ids 10, 12, ..., 100; every odd id is absent
        let names: Vec<(u32, String)> = std::iter::once(1u32).chain((0..46u32).map(|i| 10 + 2 * i)).map(|id| (id, format!("T{id}"))).collect();
        let terms_wide: Vec<(u32, &str)> = names.iter().map(|(id, n)| (*id, n.as_str())).collect();
        let sizes = [29usize, 30, 31, 32];
        let member = |i: usize| 10 + 2 * i as u32;
        let d = if thorough { 3 } else { 2 };
        ctx.space("histories/lists-at-the-inline-capacity", &format!("terms 1 and 10, 12, ..., 100 present, every odd id absent; for m in {sizes:?}: (a) add_parent(1, k) for the first m even ids, then every sequence of length <= {d} over 7 calls (absent child 9 / 25 / 101 / 25 001 - below, between, above, far above; absent parent 25 for a member; the valid next child; a valid repeat of child 34), without and with a gene on the same m terms; (b) gene / OMIM / ORPHA record 7 annotated to the first m even ids, then every sequence of length <= {d} over 6 annotate calls for that record (absent term 9 / 25 / 101 / 25 001, the valid next term, a valid repeat of term 34)"));
        for &m in &sizes {
            let prefix2: Vec<(u32, u32)> = (0..m).map(|i| (1, member(i))).collect();
            let tail2: [(u32, u32); 7] = [(1, 9), (1, 25), (1, 101), (1, 25_001), (25, member(3)), (1, member(m)), (1, 34)];
            for seq in sequences(&tail2, d) {
                if !ctx.take() {
                    continue;
                }
                ctx.state();
                let mut p2 = prefix2.clone();
                p2.extend(seq.iter().copied());
                check_history_on(ctx, &terms_wide, &p2, &[]);
                let p3: Vec<Op3> = (0..m).map(|i| Op3::Annotate(Kind::Gene, 7, member(i))).chain([Op3::Annotate(Kind::Gene, 7, 25)]).collect();
                check_history_on(ctx, &terms_wide, &p2, &p3);
                ctx.sample(|| json!({"children of term 1 before": m, "then": seq.iter().map(|(p, c)| format!("add_parent({p},{c})")).collect::<Vec<_>>()}));
            }
            for kind in [Kind::Gene, Kind::Omim, Kind::Orpha] {
                let prefix3: Vec<Op3> = (0..m).map(|i| Op3::Annotate(kind, 7, member(i))).collect();
                let tail3: [Op3; 6] = [Op3::Annotate(kind, 7, 9), Op3::Annotate(kind, 7, 25), Op3::Annotate(kind, 7, 101), Op3::Annotate(kind, 7, 25_001), Op3::Annotate(kind, 7, member(m)), Op3::Annotate(kind, 7, 34)];
                // the terms hang below term 1 in a chain of three levels, so that links are inherited
                let p2: Vec<(u32, u32)> = (0..46usize).map(|i| (if i % 3 == 0 { 1 } else { member(i - 1) }, member(i))).collect();
                for seq in sequences(&tail3, d) {
                    if !ctx.take() {
                        continue;
                    }
                    ctx.state();
                    let mut p3 = prefix3.clone();
                    p3.extend(seq.iter().copied());
                    check_history_on(ctx, &terms_wide, &p2, &p3);
                    ctx.sample(|| json!({"kind": kind.name(), "terms of record 7 before": m, "then": seq.iter().map(|o| o.describe()).collect::<Vec<_>>()}));
                }
            }
        }
    }

    // ---- explicit-state search to a greater depth: a canonical state is the SET of distinct ConnectedTerms
    // calls issued so far (successful calls commute - C16 - and failing calls must have no effect - this
    // property - so two histories with the same call set have the same futures); every transition
    // state --call--> state' is replayed on the real Builder from scratch via a representative history and
    // checked with the full oracle, so a wrong merge of states would itself show up as a violation.
    {
        let depth = if thorough { 6 } else { 5 };
        let total: u64 = (0..=depth).map(|j| binom(p3_alpha.len() as u64, j as u64)).sum();
        ctx.space("histories/ConnectedTerms-state-graph", &format!("all {total} canonical states with <= {depth} distinct calls (of 21) x all 21 outgoing transitions, after the AllTerms prefix add_parent(1,3)!, add_parent(1,2); representative history = the state's calls in ascending (even size) or descending (odd size) alphabet order, then the new call"));
        let p2: Vec<(u32, u32)> = vec![(1, 3), (1, 2)];
        let nops = p3_alpha.len();
        // enumerate masks by popcount (breadth-first), then numerically
        for size in 0..=depth {
            let mut mask: u32 = if size == 0 { 0 } else { (1u32 << size) - 1 };
            loop {
                if ctx.take() {
                    ctx.state();
                    let mut hist: Vec<Op3> = (0..nops).filter(|i| mask >> i & 1 == 1).map(|i| p3_alpha[i]).collect();
                    if size % 2 == 1 {
                        hist.reverse();
                    }
                    for op in &p3_alpha {
                        let mut h = hist.clone();
                        h.push(*op);
                        check_history(ctx, &p2, &h);
                    }
                    if mask == 0b10101 {
                        ctx.sample(|| json!({"state (distinct calls)": hist.iter().map(|o| o.describe()).collect::<Vec<_>>(), "transitions": nops}));
                    }
                }
                if size == 0 {
                    break;
                }
                // next mask with the same popcount (Gosper's hack), stop beyond nops bits
                let c = mask & mask.wrapping_neg();
                let r = mask + c;
                let next = (((r ^ mask) >> 2) / c) | r;
                if next >= (1u32 << nops) {
                    break;
                }
                mask = next;
            }
            if ctx.out_of_time() {
                break;
            }
        }
    }

    // ---- the same closure requirement on the decoder's use of the builder: a gene / disease record that
    // names an absent term must not yield an ontology (documented: HpoError::DoesNotExist)
    ctx.space("decoder/records-naming-absent-terms", "binary v1/v2/v3 files (terms 1, 118, 200) whose gene, OMIM or ORPHA record lists term 300 or 9999999 (absent), at every position of the record's term list and with 0..2 valid terms around it: from_bytes must return an error (or panic as documented) - if it returns an ontology, the whole read API must be walkable");
    {
        use crate::encode::{encode, EncOpts};
        let mut base = Facts::default();
        base.version = (2024, 2, 29);
        base.terms = vec![Facts::term(1, "All"), Facts::term(118, "Phenotypic abnormality"), Facts::term(200, "A")];
        base.edges = vec![(118, 1), (200, 118)];
        for kind in [Kind::Gene, Kind::Omim, Kind::Orpha] {
            for absent in [300u32, 9_999_999, 2] {
                for valid in [vec![], vec![200u32], vec![118, 200]] {
                    for pos in 0..=valid.len() {
                        for version in [3u8, 2, 1] {
                            if version < 3 && kind == Kind::Orpha {
                                continue;
                            }
                            if !ctx.take() {
                                continue;
                            }
                            ctx.state();
                            ctx.exec();
                            ctx.validated();
                            ctx.nontrivial();
                            let mut f = base.clone();
                            let mut terms = valid.clone();
                            terms.insert(pos, absent);
                            for t in &terms {
                                f.anns.push(Facts::ann(kind, 7, "Seven", Some(*t)));
                            }
                            f.anns.push(Facts::ann(kind, 8, "Eight", Some(118)));
                            ctx.transitions(f.n_steps());
                            let bytes = encode(&f, &EncOpts::list_order(version));
                            let case = || json!({"facts": f.to_json(), "absent_term": absent, "format_version": version});
                            // the valid twin of this shape (record 7 on the valid terms only, record 8 on 118; the
                            // same layout and version): it must decode to the ontology it describes - otherwise
                            // "an error is fine" below would also excuse a decoder that refuses this shape as such
                            if pos == 0 && absent == 300 {
                                let mut g = base.clone();
                                for t in &valid {
                                    g.anns.push(Facts::ann(kind, 7, "Seven", Some(*t)));
                                }
                                g.anns.push(Facts::ann(kind, 8, "Eight", Some(118)));
                                let twin_case = || json!({"facts": g.to_json(), "format_version": version});
                                match crate::drive::from_bytes(&encode(&g, &EncOpts::list_order(version))) {
                                    Ok(Ok(ont)) => {
                                        crate::drive::check_against_model(ctx, &ont, &RefOnt::derive(&crate::encode::project(&g, version)), Mode::Defaults, &format!("binary v{version}, the valid file the absent id is added to"), &twin_case);
                                    }
                                    Ok(Err(e)) | Err(e) => {
                                        ctx.exec();
                                        ctx.violation("Ontology::from_bytes", "rejects (or panics on) a file laid out as documented", json!({"case": twin_case(), "observed": e}));
                                    }
                                }
                            }
                            match crate::drive::from_bytes(&bytes) {
                                Ok(Err(_)) | Err(_) => {}
                                // an ontology may only come back if it is referentially closed (a decoder that drops
                                // the unknown term instead of failing would still satisfy the property)
                                Ok(Ok(ont)) => {
                                    // the valid facts without the offending link (record 7 bare or gone when no
                                    // other link is left) / without record 7
                                    let mut a = f.clone();
                                    a.anns.retain(|x| x.term != Some(absent));
                                    let mut b = a.clone();
                                    b.anns.retain(|x| x.id != 7);
                                    let mut c = a.clone();
                                    if valid.is_empty() {
                                        c.anns.push(Facts::ann(kind, 7, "Seven", None));
                                    }
                                    judge_returned(ctx, &ont, "Ontology::from_bytes", "a record naming an absent term", absent, &[a, b, c], &case);
                                }
                            }
                            ctx.sample(|| json!({"kind": kind.name(), "record_terms": terms, "absent": absent, "format_version": version}));
                        }
                    }
                }
            }
        }
    }

    // ---- the same with the offending term in a second occurrence of a record id (the first occurrence is valid)
    ctx.space("decoder/repeated-records-naming-absent-terms", "binary v1/v2/v3 files (terms 1, 118, 200) in which record 7 occurs twice: once listing valid terms only, once listing an absent term (300 / 9999999) at every position, in both orders of the two occurrences: from_bytes must not return an ontology in which a record lists, or a walk of the read API meets, a term that does not exist");
    {
        use crate::encode::{disease_record, gene_record, EncOpts, Sections};
        let mut base = Facts::default();
        base.version = (2024, 2, 29);
        base.terms = vec![Facts::term(1, "All"), Facts::term(118, "Phenotypic abnormality"), Facts::term(200, "A")];
        base.edges = vec![(118, 1), (200, 118)];
        for kind in [Kind::Gene, Kind::Omim, Kind::Orpha] {
            for absent in [300u32, 9_999_999] {
                for first_valid in [vec![], vec![200u32], vec![118, 200]] {
                    for valid in [vec![], vec![200u32], vec![118, 200]] {
                        for pos in 0..=valid.len() {
                            for bad_first in [false, true] {
                                for version in [3u8, 2, 1] {
                                    if version < 3 && kind == Kind::Orpha {
                                        continue;
                                    }
                                    if !ctx.take() {
                                        continue;
                                    }
                                    ctx.state();
                                    ctx.exec();
                                    ctx.validated();
                                    ctx.nontrivial();
                                    let mut f = base.clone();
                                    f.anns.push(Facts::ann(kind, 8, "Eight", Some(118)));
                                    let mut sec = Sections::from_facts(&f, &EncOpts::list_order(version));
                                    let mut bad_terms = valid.clone();
                                    bad_terms.insert(pos, absent);
                                    let mk = |terms: &[u32]| if kind == Kind::Gene { gene_record(7, "Seven", terms) } else { disease_record(7, "Seven", terms) };
                                    let (a, b) = (mk(&first_valid), mk(&bad_terms));
                                    let slot = &mut sec.recs[kind.idx()];
                                    if bad_first {
                                        slot.insert(0, a);
                                        slot.insert(0, b);
                                    } else {
                                        slot.push(a);
                                        slot.push(b);
                                    }
                                    ctx.transitions(f.n_steps() + 2);
                                    let bytes = sec.to_bytes();
                                    let case = || json!({"terms": [1, 118, 200], "kind": kind.name(), "record 7, valid occurrence": first_valid, "record 7, other occurrence": bad_terms, "offending occurrence first": bad_first, "absent_term": absent, "format_version": version});
                                    match crate::drive::from_bytes(&bytes) {
                                        Ok(Err(_)) | Err(_) => {}
                                        // (how a repeated record is resolved is open: closure and self-consistency only)
                                        Ok(Ok(ont)) => judge_returned(ctx, &ont, "Ontology::from_bytes", "a repeated record naming an absent term", absent, &[], &case),
                                    }
                                    ctx.sample(|| case());
                                }
                            }
                        }
                    }
                }
            }
        }
    }

    // ---- valid files decode to referentially closed ontologies: every D(3) graph over {1, 118, 200} x every
    // assignment of the names {"", "x", "All"} x every term-record order x v1-v3, a record of every kind on the
    // term whose record comes last (a term record dropped at a section boundary would leave its id dangling)
    {
        use crate::encode::EncOpts;
        let dags = crate::space::all_dags(3);
        ctx.space("decoder/valid-files-are-closed", &format!("{} labelled DAGs over [1, 118, 200] x 6 assignments of the names \"\", x, All x 6 term-record orders x v1, v2, v3; a gene / OMIM / ORPHA record on the term stored last: the decoded ontology must be walkable and equal to the model", dags.len()));
        let perms = crate::space::permutations(3);
        for d in &dags {
            if !ctx.take() {
                continue;
            }
            ctx.state();
            ctx.nontrivial();
            let base = Facts::from_dag(d, &[1, 118, 200, 0, 0, 0]);
            for np in &perms {
                for op in &perms {
                    let mut f = base.clone();
                    f.version = (2024, 2, 29);
                    let names = ["", "x", "All"];
                    for (i, t) in f.terms.iter_mut().enumerate() {
                        t.name = names[np[i]].to_string();
                    }
                    f.terms = crate::space::apply_perm(&f.terms, op);
                    let last = f.terms[2].id;
                    for kind in [Kind::Gene, Kind::Omim, Kind::Orpha] {
                        f.anns.push(Facts::ann(kind, 7, "Seven", Some(last)));
                    }
                    for version in [3u8, 2, 1] {
                        let pf = crate::encode::project(&f, version);
                        let r = RefOnt::derive(&pf);
                        ctx.transitions(pf.n_steps());
                        let case = || json!({"facts": pf.to_json(), "format_version": version, "term_record_order": op});
                        // (ids inside the records ascending - a decoder may insist on that, see c10::decode_tolerant)
                        match super::c10::decode_tolerant(&pf, &EncOpts::list_order(version)) {
                            Ok(ont) => {
                                crate::drive::check_against_model(ctx, &ont, &r, Mode::Defaults, &format!("binary v{version}"), &case);
                            }
                            Err(e) => {
                                ctx.exec();
                                ctx.violation("Ontology::from_bytes", if e.starts_with("panic") { "panics on a file laid out as documented" } else { "rejects a file laid out as documented" }, json!({"case": case(), "observed": e}));
                            }
                        }
                    }
                }
            }
            ctx.sample(|| json!({"dag": d.describe(), "name_assignments": 6, "record_orders": 6}));
        }
    }

    // ---- the text loaders use the same builder: a gene / disease row naming a term that hp.obo does not define
    // must not yield an ontology that hands the id out (the loaders document HpoError::DoesNotExist)
    {
        ctx.space("text-loader/rows-naming-absent-terms", "hp.obo with terms 1, 118, 200; genes_to_phenotype.txt / phenotype_to_genes.txt / phenotype.hpoa with one extra row naming HP:0000300 or HP:9999999 (absent) as first, middle or last row, for a record that also has valid rows or for a record of its own; both loaders: an error (or panic) is fine - a returned ontology must be walkable and must not list the absent id");
        let mut base = Facts::default();
        base.version = (2024, 2, 29);
        // (the inner term's name holds a colon followed by a blank - the separator of hp.obo's tag: value lines)
        base.terms = vec![Facts::term(1, "All"), Facts::term(118, "Phenotypic abnormality: all of them"), Facts::term(200, "A")];
        base.edges = vec![(118, 1), (200, 118)];
        for kind in [Kind::Gene, Kind::Omim, Kind::Orpha] {
            base.anns.push(Facts::ann(kind, 7, "SEVEN", Some(200)));
            base.anns.push(Facts::ann(kind, 7, "SEVEN", Some(118)));
            base.anns.push(Facts::ann(kind, 8, "EIGHT", Some(118)));
        }
        let rendered = crate::jax::render(&base, &crate::jax::JaxOpts::default());
        // the files without any extra row are valid: both loaders must return the ontology they describe (walkable,
        // equal to the model) - otherwise "an error is fine" below would also excuse a loader that loses a term
        if ctx.take() {
            ctx.state();
            ctx.nontrivial();
            for transitive in [false, true] {
                super::common::via_jax(ctx, &base, &crate::jax::JaxOpts::default(), transitive, "the valid files the rows below are added to");
                // ... and with rows on the leaf only: no row names the inner term, so only the is_a line of the leaf refers to it
                let mut leaf_only = base.clone();
                leaf_only.anns.retain(|a| a.term == Some(200));
                super::common::via_jax(ctx, &leaf_only, &crate::jax::JaxOpts::default(), transitive, "valid files, rows on the leaf only");
            }
        }
        for kind in [Kind::Gene, Kind::Omim, Kind::Orpha] {
            for absent in [300u32, 9_999_999] {
                for rec in [7u32, 9] {
                    for pos in 0..3usize {
                        for transitive in [false, true] {
                            if !ctx.take() {
                                continue;
                            }
                            ctx.state();
                            ctx.exec();
                            ctx.validated();
                            ctx.nontrivial();
                            ctx.transitions(base.n_steps() + 1);
                            let name = if rec == 7 { "SEVEN" } else { "NINE" };
                            let insert = |text: &str, row: &str, header: bool| -> String {
                                let mut lines: Vec<&str> = text.lines().collect();
                                let first = if header { 1 } else { 0 };
                                let at = match pos {
                                    0 => first,
                                    1 => (first + lines.len()) / 2,
                                    _ => lines.len(),
                                };
                                lines.insert(at.min(lines.len()), row);
                                let mut out = lines.join("\n");
                                out.push('\n');
                                out
                            };
                            let mut files = crate::jax::Rendered { obo: rendered.obo.clone(), hpoa: rendered.hpoa.clone(), genes_to_phenotype: rendered.genes_to_phenotype.clone(), phenotype_to_genes: rendered.phenotype_to_genes.clone(), some_term: rendered.some_term };
                            match kind {
                                Kind::Gene => {
                                    files.genes_to_phenotype = insert(&files.genes_to_phenotype, &format!("{rec}\t{name}\tHP:{absent:07}\tUnknown\t-\tOMIM:243400"), true);
                                    files.phenotype_to_genes = insert(&files.phenotype_to_genes, &format!("HP:{absent:07}\tUnknown\t{rec}\t{name}\tOMIM:243400"), true);
                                }
                                Kind::Omim | Kind::Orpha => {
                                    let db = if kind == Kind::Omim { "OMIM" } else { "ORPHA" };
                                    files.hpoa = insert(&files.hpoa, &format!("{db}:{rec}\t{name}\t\tHP:{absent:07}\t{db}:{rec}\tTAS\t\t\t\t\tP\tHPO:skoehler[2014-11-27]"), false);
                                }
                            }
                            let case = || json!({"kind": kind.name(), "record": rec, "absent_term": absent, "row_position": (["first", "middle", "last"][pos]), "transitive_loader": transitive, "phenotype.hpoa": files.hpoa, "genes": if transitive { &files.phenotype_to_genes } else { &files.genes_to_phenotype }});
                            match crate::jax::load_with(&files, transitive, crate::jax::OtherGeneFile::Absent) {
                                Ok(Err(_)) | Err(_) => {}
                                Ok(Ok(ont)) => {
                                    // the valid rows alone / without the record of the offending row
                                    let mut b = base.clone();
                                    b.anns.retain(|x| !(x.kind == kind && x.id == rec));
                                    // (... or with that record registered without the offending link)
                                    let mut c = base.clone();
                                    if rec != 7 {
                                        c.anns.push(Facts::ann(kind, rec, name, None));
                                    }
                                    judge_returned(ctx, &ont, "Ontology::from_standard", "a row naming an absent term", absent, &[base.clone(), b, c], &case)
                                }
                            }
                            ctx.sample(|| json!({"kind": kind.name(), "record": rec, "absent": absent, "position": pos, "transitive": transitive}));
                        }
                    }
                }
            }
        }
        crate::jax::cleanup();
    }

    // ---- sub_ontology builds its result through the same builder: the result must be referentially closed
    for n in 3..=4usize {
        let dags = crate::space::all_dags(n);
        ctx.space(&format!("sub_ontology/D{n}/closure"), &format!("{} labelled DAGs (one gene on every term, OMIM 20 / 21 on alternating terms, ORPHA 30 on the first two terms and 31 on the others, a bare record of every kind; Builder-built, and decoded with each term in turn flagged obsolete + replaced) x every root x every leaf and ordered leaf pair: sub_ontology succeeds exactly when the leaves are below root and its result can be walked through the whole read API", dags.len()));
        for d in &dags {
            if !ctx.take() {
                continue;
            }
            ctx.state();
            if d.has_diamond() {
                ctx.nontrivial();
            }
            let mut f = Facts::from_dag(d, &[2, 3, 4, 5, 6, 7]);
            let ids: Vec<u32> = f.terms.iter().map(|t| t.id).collect();
            for (i, t) in ids.iter().enumerate() {
                f.anns.push(Facts::ann(Kind::Gene, 10 + i as u32, &format!("G{i}"), Some(*t)));
                f.anns.push(Facts::ann(Kind::Omim, 20 + i as u32 % 2, &format!("D{}", i % 2), Some(*t)));
                // ORPHA 30 on the first two terms, 31 on the others: records that straddle another cut than the OMIM ones
                f.anns.push(Facts::ann(Kind::Orpha, 30 + i as u32 / 2 % 2, &format!("R{}", i / 2 % 2), Some(*t)));
            }
            // ... and a record of every kind that lists no term at all
            for (kind, id) in [(Kind::Gene, 19u32), (Kind::Omim, 29), (Kind::Orpha, 39)] {
                f.anns.push(Facts::ann(kind, id, "bare", None));
            }
            let r = RefOnt::derive(&f);
            ctx.transitions(f.n_steps());
            // Builder-built source, and the same graph decoded from a v3 file with each term in turn flagged
            // obsolete and replaced (a flagged term keeps its links; the copy loop must not skip it)
            let mut sources: Vec<Ontology> = vec![];
            match crate::drive::build(&f, Mode::Minimal) {
                Ok(src) => sources.push(src),
                Err(e) => ctx.violation("Builder", "construction fails on valid facts", json!({"facts": f.to_json(), "observed": e})),
            }
            for k in 0..n {
                let mut g = f.clone();
                g.version = (2024, 2, 29);
                g.terms[k].obsolete = true;
                g.terms[k].replacement = Some(ids[(k + 1) % n]);
                // the decoder installs defaults: give it the two root terms as unrelated extra terms
                g.terms.push(Facts::term(1, "All"));
                g.terms.push(Facts::term(118, "Phenotypic abnormality"));
                g.edges.push((118, 1));
                // (lists in fact order; a decoder may insist on ascending ids inside a record: then the canonical file)
                match crate::drive::from_bytes(&crate::encode::encode(&g, &crate::encode::EncOpts::list_order(3))) {
                    Ok(Ok(src)) => sources.push(src),
                    Ok(Err(_)) | Err(_) => match crate::drive::from_bytes(&crate::encode::encode(&g, &crate::encode::EncOpts::v(3))) {
                        Ok(Ok(src)) => {
                            ctx.bump("refused: file with in-record lists in fact order (canonical file used as sub_ontology source)", 1);
                            sources.push(src);
                        }
                        Ok(Err(e)) | Err(e) => ctx.violation("Ontology::from_bytes", "rejects (or panics on) a file laid out as documented", json!({"facts": g.to_json(), "flagged_term": ids[k], "observed": e})),
                    },
                }
            }
            for src in &sources {
            for &root in &ids {
                let mut collections: Vec<Vec<u32>> = ids.iter().map(|a| vec![*a]).collect();
                for a in &ids {
                    for b in &ids {
                        if a < b {
                            collections.push(vec![*a, *b]);
                        }
                    }
                }
                for leaves in collections {
                    ctx.exec();
                    ctx.validated();
                    ctx.transitions(1);
                    let valid = leaves.iter().all(|l| *l == root || r.terms[l].ancestors.contains(&root));
                    let res = guard(|| src.sub_ontology(src.hpo(root).unwrap(), leaves.iter().map(|l| src.hpo(*l).unwrap()).collect::<Vec<_>>()).map_err(|e| e.to_string()));
                    let case = || json!({"source": f.to_json(), "root": root, "leaves": leaves, "rust": f.to_rust(false)});
                    match (res, valid) {
                        (Ok(Ok(sub)), true) => {
                            if let Err(i) = Obs::of(&sub) {
                                ctx.violation(&i.site, "[sub_ontology] result is not referentially closed (read API panics or is inconsistent)", json!({"case": case(), "observed": i.what}));
                            }
                        }
                        (Ok(Err(_)), false) => {}
                        (Ok(Err(e)), true) => ctx.violation("Ontology::sub_ontology", "[sub_ontology] fails although every leaf is root or below root", json!({"case": case(), "observed": e})),
                        (Ok(Ok(_)), false) => ctx.violation("Ontology::sub_ontology", "[sub_ontology] accepted although a leaf is not below root", json!({"case": case()})),
                        (Err(p), _) => ctx.violation("Ontology::sub_ontology", "[sub_ontology] panics", json!({"case": case(), "observed": p})),
                    }
                }
            }
            }
            ctx.sample(|| json!({"dag": d.describe(), "ids": ids}));
        }
    }

    // ---- LooseCollection: new_term called again for an id that exists. Which of the calls counts is nobody's
    // statement (the public documentation is silent; only the private arena says "does nothing"): every id is
    // stored once, under one of the names it was added with, and everything else is as the model says. A
    // builder that refuses the repeated call (panic) is not judged.
    ctx.space("histories/new_term-repeats", "all sequences of length <= 5 over new_term(id in {1,2,3}, name in {a,b}): every id is stored once, under one of the names it was added with; the whole read API against the model");
    let nt_alpha: Vec<(u32, &str)> = vec![(1, "a"), (1, "b"), (2, "a"), (2, "b"), (3, "a")];
    for seq in sequences(&nt_alpha, 5) {
        if !ctx.take() {
            continue;
        }
        ctx.state();
        ctx.exec();
        ctx.validated();
        ctx.transitions(seq.len() as u64);
        let mut f = Facts::default();
        for (id, name) in &seq {
            f.terms.push(Facts::term(*id, name));
        }
        let dup = (0..seq.len()).any(|i| (0..i).any(|j| seq[j].0 == seq[i].0));
        if dup {
            ctx.nontrivial();
        }
        let case = || json!({"new_term calls": seq});
        match crate::drive::build(&f, Mode::Minimal) {
            Ok(ont) => {
                // the model carries, for an id added under several names, the one the ontology shows - if it is
                // one of them
                let mut g = f.clone();
                for t in g.terms.iter_mut() {
                    if let Some(shown) = ont.hpo(t.id).map(|x| x.name().to_string()) {
                        if f.terms.iter().any(|u| u.id == t.id && u.name == shown) {
                            t.name = shown;
                        }
                    }
                }
                let model = RefOnt::derive(&g);
                crate::drive::check_against_model(ctx, &ont, &model, Mode::Minimal, "builder", &case);
            }
            Err(_) if dup => ctx.bump("construction_refused_for_a_repeated_id", 1),
            Err(e) => ctx.violation("Builder::new_term", "construction fails", json!({"case": case(), "observed": e})),
        }
        ctx.sample(|| json!({"new_term calls": seq}));
    }
    // ---- (last) more terms than a 16-bit index can address: 66 000 new_term calls, links and annotations
    // among the last ones, with rejected calls interleaved
    ctx.space("histories/66000-terms", "66 000 terms (ids 1..=66000, term k is_a term k/2 for the last 600 terms and for k <= 600), genes on the last terms; every valid call accompanied by rejected calls naming absent ids; the whole read API against the model of the valid calls");
    if ctx.take() {
        ctx.state();
        ctx.nontrivial();
        let n = 66_000u32;
        let mut f = Facts::default();
        for k in 1..=n {
            f.terms.push(Facts::term(k, "t"));
        }
        for k in (2..=600u32).chain(n - 600..=n) {
            f.edges.push((k, k / 2));
        }
        for k in [n, n - 1, 65_536, 65_535, 3] {
            f.anns.push(Facts::ann(Kind::Gene, k, &format!("G{k}"), Some(k)));
            f.anns.push(Facts::ann(Kind::Omim, k, &format!("D{k}"), Some(k)));
        }
        let model = RefOnt::derive(&f);
        ctx.transitions(3 * f.n_steps());
        ctx.exec();
        ctx.validated();
        let absent = [n + 1, 0, 9_999_999, 10_000_000, u32::MAX];
        let mut res = crate::drive::build_with_rejected(&f, Mode::Minimal, &absent);
        if matches!(&res, Err(e) if e.starts_with("panic")) {
            // a call that panics for an id beyond the id space has refused it (as new_term does): once more with
            // absent ids inside the id space only
            ctx.bump("no verdict: first 66 000-term run panicked (taken for a call naming an id beyond the id space) and was repeated without such ids", 1);
            res = crate::drive::build_with_rejected(&f, Mode::Minimal, &absent[..3]);
        }
        match res {
            Ok(ont) => {
                crate::drive::check_against_model(ctx, &ont, &model, Mode::Minimal, "builder, 66 000 terms, rejected calls interleaved", &|| json!({"terms": n, "links": f.edges.len(), "records": 10}));
            }
            // (the driver stops at a call naming an absent term that returns Ok: such a builder is judged by the
            // small histories, where an accepted call is followed to the end)
            Err(e) if e.starts_with("accepted:") => ctx.bump("no verdict: return value of a call naming an absent term that returned Ok (66 000 terms)", 1),
            Err(e) => ctx.violation("Builder", "a valid call fails (66 000 terms)", json!({"terms": n, "observed": e})),
        }
        ctx.sample(|| json!({"terms": n}));
    }
}
