//! Shared building blocks for the ontology-shaped properties: annotation patterns and path runners.

use crate::ctx::Ctx;
use crate::drive::{self, check_against_model};
use crate::encode::{self, EncOpts};
use crate::jax::{self, JaxOpts};
use crate::model::{AnnFact, Facts, Kind, Mode, RefOnt};
use serde_json::{json, Value};

pub const G1: (Kind, u32, &str) = (Kind::Gene, 11, "GENE1");
pub const G2: (Kind, u32, &str) = (Kind::Gene, 22, "GENE2");
pub const G3: (Kind, u32, &str) = (Kind::Gene, 33, "GENE3");
pub const O1: (Kind, u32, &str) = (Kind::Omim, 600_001, "Disease one");
pub const O2: (Kind, u32, &str) = (Kind::Omim, 600_002, "Disease two, bare");
pub const R1: (Kind, u32, &str) = (Kind::Orpha, 77, "Orpha one");
pub const R2: (Kind, u32, &str) = (Kind::Orpha, 78, "Orpha two, on every term");
pub const R3: (Kind, u32, &str) = (Kind::Orpha, 79, "Orpha three, bare");
pub const R4: (Kind, u32, &str) = (Kind::Orpha, 80, "Orpha four, bare");

pub fn rot(mask: u32, by: usize, n: usize) -> u32 {
    let mut out = 0;
    for i in 0..n {
        if mask >> i & 1 == 1 {
            out |= 1 << ((i + by) % n);
        }
    }
    out
}

fn facts_for(rec: (Kind, u32, &str), mask: u32, ids: &[u32]) -> Vec<AnnFact> {
    (0..ids.len()).filter(|i| mask >> i & 1 == 1).map(|i| Facts::ann(rec.0, rec.1, rec.2, Some(ids[i]))).collect()
}

/// The annotation groups derived from one subset S of the nodes:
/// g1 <- S, g2 <- complement(S), o1 <- rot1(S), r1 <- rot2(S), r2 <- every term, plus bare g3, o2, r3, r4
/// and five bare records of minimal size (totals: 6 genes, 3 OMIM, 5 ORPHA).
pub struct AnnGroups {
    pub g1: Vec<AnnFact>,
    pub g2: Vec<AnnFact>,
    pub o1: Vec<AnnFact>,
    pub r1: Vec<AnnFact>,
    pub r2: Vec<AnnFact>,
    pub bare: Vec<AnnFact>,
}

impl AnnGroups {
    pub fn new(s: u32, ids: &[u32]) -> AnnGroups {
        let n = ids.len();
        let full = (1u32 << n) - 1;
        AnnGroups {
            g1: facts_for(G1, s, ids),
            g2: facts_for(G2, full & !s, ids),
            o1: facts_for(O1, rot(s, 1, n), ids),
            r1: facts_for(R1, rot(s, 2, n), ids),
            r2: facts_for(R2, full, ids),
            // ... and records of minimal size: in the binary format a bare gene with a one- or two-byte symbol is a
            // 14- / 15-byte record (shorter than any disease record), a bare disease with an empty name a 16-byte one
            bare: vec![
                Facts::ann(G3.0, G3.1, G3.2, None),
                Facts::ann(O2.0, O2.1, O2.2, None),
                Facts::ann(R3.0, R3.1, R3.2, None),
                Facts::ann(R4.0, R4.1, R4.2, None),
                Facts::ann(Kind::Gene, 3434, "G", None),
                Facts::ann(Kind::Omim, 600_034, "", None),
                Facts::ann(Kind::Gene, 3535, "G5", None),
                Facts::ann(Kind::Orpha, 8181, "", None),
                // (a sixth gene: the three totals differ, so that a total taken from another kind is visible)
                Facts::ann(Kind::Gene, 3737, "G7", None),
            ],
        }
    }
    /// g1 facts in the given order first, then the other groups in canonical order
    pub fn sequential(&self, g1_order: &[usize]) -> Vec<AnnFact> {
        let mut v: Vec<AnnFact> = vec![self.bare[0].clone()];
        v.extend(g1_order.iter().map(|&i| self.g1[i].clone()));
        v.extend(self.g2.iter().cloned());
        v.extend(self.o1.iter().cloned());
        v.push(self.bare[1].clone());
        v.extend(self.r1.iter().cloned());
        v.push(self.bare[2].clone());
        v.extend(self.r2.iter().cloned());
        v.push(self.bare[3].clone());
        v.extend(self.bare[4..].iter().cloned());
        v
    }
    /// round-robin interleaving of all groups
    pub fn interleaved(&self) -> Vec<AnnFact> {
        let groups: [&Vec<AnnFact>; 6] = [&self.g1, &self.o1, &self.g2, &self.r1, &self.bare, &self.r2];
        let mut v = vec![];
        let max = groups.iter().map(|g| g.len()).max().unwrap_or(0);
        for i in 0..max {
            for g in groups {
                if let Some(a) = g.get(i) {
                    v.push(a.clone());
                }
            }
        }
        v
    }
}

/// Run the facts through the Builder and compare with the model.
pub fn via_builder(ctx: &mut Ctx, f: &Facts, r: &RefOnt, mode: Mode, what: &str) -> Option<crate::obs::Obs> {
    ctx.transitions(f.n_steps());
    match drive::build(f, mode) {
        Err(e) => {
            ctx.exec();
            ctx.violation("Builder", "[builder] construction fails on valid facts", json!({"case": f.to_json(), "observed": e, "order": what}));
            None
        }
        Ok(ont) => {
            let case = || json!({"facts": f.to_json(), "order": what, "rust": f.to_rust(mode == Mode::Defaults)});
            check_against_model(ctx, &ont, r, mode, "builder", &case)
        }
    }
}

/// Run the facts through the Builder with rejected calls (naming absent terms) interleaved, and compare with
/// the model of the valid facts alone: a call that returns an error is not a fact.
pub fn via_builder_rejected(ctx: &mut Ctx, f: &Facts, r: &RefOnt, mode: Mode, what: &str) -> Option<crate::obs::Obs> {
    // absent ids inside the id space only: what a call does with an id >= 10^7 (refuse or panic) is C15's question
    let absent: Vec<u32> = [3u32, 0, 9_999_999, 2, 119, 4096, 1_048_576].iter().copied().filter(|x| !f.terms.iter().any(|t| t.id == *x)).collect();
    ctx.transitions(3 * f.n_steps());
    match drive::build_with_rejected(f, mode, &absent) {
        Err(e) => {
            ctx.exec();
            ctx.violation("Builder", "[builder, rejected calls interleaved] construction fails on valid facts", json!({"case": f.to_json(), "observed": e, "order": what, "absent_ids_used": absent}));
            None
        }
        Ok(ont) => {
            let case = || json!({"facts": f.to_json(), "order": what, "rejected_calls": "before every add_parent: the same call with parent / child replaced by an absent id; after every annotate_*: the same call and one for a fresh record id with an absent term id", "absent_ids_used_in_rotation": absent});
            check_against_model(ctx, &ont, r, mode, "builder, rejected calls interleaved", &case)
        }
    }
}

/// Encode with the independent encoder, decode with the real decoder, compare with the model.
pub fn via_binary(ctx: &mut Ctx, f: &Facts, o: &EncOpts, what: &str) -> Option<crate::obs::Obs> {
    let version = o.version;
    let pf = encode::project(f, version);
    let r = RefOnt::derive(&pf);
    ctx.transitions(pf.n_steps());
    let bytes = encode::encode(&pf, o);
    // lenient only if the file really differs from the canonical one (ids inside records ascending): a file that is
    // canonical although list order was asked for has to be accepted like any other canonical file
    let non_canonical = o.ids_in_list_order && encode::encode(&pf, &EncOpts { ids_in_list_order: false, ..o.clone() }) != bytes;
    let case = || json!({"facts": pf.to_json(), "format_version": version, "order": what, "bytes_len": bytes.len()});
    match drive::from_bytes(&bytes) {
        Ok(Ok(ont)) => {
            if non_canonical {
                ctx.bump("accepted: ids inside a record not ascending", 1);
            }
            check_against_model(ctx, &ont, &r, Mode::Defaults, &format!("binary v{version}"), &case)
        }
        // ids inside records in the order of the fact list (not ascending as the crate's writer emits them): whether a
        // reader has to accept that is not stated - refuse-or-exact
        Ok(Err(_)) | Err(_) if non_canonical => {
            ctx.exec();
            ctx.bump("refused: ids inside a record not ascending", 1);
            None
        }
        Ok(Err(e)) => {
            ctx.exec();
            ctx.violation("Ontology::from_bytes", &format!("[binary v{version}] rejects a file laid out as documented"), json!({"case": case(), "observed": e}));
            None
        }
        Err(p) => {
            ctx.exec();
            ctx.violation("Ontology::from_bytes", &format!("[binary v{version}] panics on a file laid out as documented"), json!({"case": case(), "observed": p}));
            None
        }
    }
}

/// Binary file in which every record with terms occurs twice (all but the last term, then all terms).
/// The layout does not say how a repeated id is resolved, so the oracle is policy-neutral: terms and links
/// between terms as in the model; every record id present once, listing either the partial or the complete
/// term set; and the annotation links and information content must be exactly the closure of the records the
/// decoded ontology itself reports (C02's iff evaluated on the decoded ontology).
pub fn via_binary_repeated(ctx: &mut Ctx, f: &Facts, version: u8, what: &str) {
    let pf = encode::project(f, version);
    let r = RefOnt::derive(&pf);
    ctx.transitions(2 * pf.n_steps());
    let o = EncOpts { repeat_records: true, ..EncOpts::v(version) };
    let bytes = encode::encode(&pf, &o);
    let case = || json!({"facts": pf.to_json(), "format_version": version, "order": what, "layout": "every gene/disease record with terms is written twice: first without its last term, then completely"});
    ctx.exec();
    ctx.validated();
    let path = format!("binary v{version}, repeated records");
    match drive::from_bytes(&bytes) {
        Ok(Ok(ont)) => match crate::obs::Obs::of(&ont) {
            Err(inc) => ctx.violation(&inc.site, &format!("[{path}] read API inconsistent or panicking"), json!({"case": case(), "observed": inc.what})),
            Ok(obs) => {
                let own = obs.to_facts(pf.version);
                // records: same ids as supplied; each lists the partial or the complete term set
                for k in crate::model::KINDS {
                    let want = encode::records_of(&pf, k);
                    let got = &obs.recs[k.idx()];
                    let mut want_ids: Vec<u32> = want.iter().map(|w| w.0).collect();
                    want_ids.sort_unstable();
                    let got_ids: Vec<u32> = got.iter().map(|g| g.id).collect();
                    if want_ids != got_ids {
                        ctx.violation("Ontology::from_bytes", &format!("[{path}] set of {} records differs from the file", k.name()), json!({"case": case(), "expected_ids": want_ids, "observed_ids": got_ids}));
                        return;
                    }
                    for g in got {
                        let w = want.iter().find(|w| w.0 == g.id).unwrap();
                        let mut full = w.2.clone();
                        let mut part: Vec<u32> = full[..full.len().saturating_sub(1)].to_vec();
                        full.sort_unstable();
                        part.sort_unstable();
                        if g.terms != full && g.terms != part {
                            ctx.violation("Ontology::from_bytes", &format!("[{path}] a record lists terms that neither of its two occurrences lists"), json!({"case": case(), "kind": k.name(), "record": g.id, "observed_terms": g.terms, "complete": full, "partial": part}));
                            return;
                        }
                    }
                }
                let own_model = RefOnt::derive(&own);
                let exp = crate::obs::Obs::expected(&own_model, Mode::Defaults);
                if let Some((site, sig, det)) = obs.diff(&exp, false) {
                    ctx.violation(&site, &format!("[{path}] links are not the closure of the records the ontology reports: {sig}"), json!({"case": case(), "difference": det}));
                    return;
                }
                // the term graph itself does not depend on the records
                let mut bare = pf.clone();
                bare.anns.clear();
                let mut own_bare = own.clone();
                own_bare.anns.clear();
                let (a, b) = (RefOnt::derive(&bare), RefOnt::derive(&own_bare));
                if crate::obs::Obs::expected(&a, Mode::Defaults).diff(&crate::obs::Obs::expected(&b, Mode::Defaults), true).is_some() {
                    ctx.violation("Ontology::from_bytes", &format!("[{path}] terms or links between terms differ from the file"), json!({"case": case()}));
                }
                let _ = r;
                ctx.outcome(obs.fingerprint());
            }
        },
        // how a record id that occurs twice is treated is not specified: refusing the file is as defensible as
        // first-wins / last-wins / merging
        Ok(Err(_)) => ctx.bump("refused: a record id occurring twice in a section", 1),
        Err(p) => ctx.violation("Ontology::from_bytes", &format!("[{path}] panics on a file laid out as documented"), json!({"case": case(), "observed": p})),
    }
}

/// Render as JAX files, load with the real loader, compare with the model.
/// Bare records cannot be expressed in the text formats and are dropped from the expectation.
pub fn via_jax(ctx: &mut Ctx, f: &Facts, o: &JaxOpts, transitive: bool, what: &str) -> Option<crate::obs::Obs> {
    let mut tf = f.clone();
    tf.anns.retain(|a| a.term.is_some());
    let r = RefOnt::derive(&tf);
    ctx.transitions(tf.n_steps());
    let rendered = jax::render(&tf, o);
    let case = || -> Value { json!({"facts": tf.to_json(), "order": what, "options": format!("{o:?}"), "transitive_loader": transitive, "hp.obo": rendered.obo, "phenotype.hpoa": rendered.hpoa, "genes": if transitive { &rendered.phenotype_to_genes } else { &rendered.genes_to_phenotype }}) };
    let path = if transitive { "jax transitive" } else { "jax" };
    match jax::load(&rendered, transitive) {
        Ok(Ok(ont)) => check_against_model(ctx, &ont, &r, Mode::Defaults, path, &case),
        Ok(Err(e)) => {
            ctx.exec();
            ctx.violation("Ontology::from_standard", &format!("[{path}] rejects valid JAX files"), json!({"case": case(), "observed": e}));
            None
        }
        Err(p) => {
            ctx.exec();
            ctx.violation("Ontology::from_standard", &format!("[{path}] panics on valid JAX files"), json!({"case": case(), "observed": p}));
            None
        }
    }
}

/// Sequences of ontologies in one process: a query must not depend on which ontology was queried before.
/// For ordered pairs (A, B) of labelled DAGs over the same ids (all 25 x 25 pairs of 3-term graphs, and for
/// every 4-term graph A four graphs B) with different annotation patterns: A is built and checked, then B is
/// built INTO THE SAME SLOT (so it lives at the address A had) and checked, then A again. `per_ont` is the
/// property's own oracle for one ontology; it returns the first difference.
pub fn ontology_sequences(ctx: &mut Ctx, prefix: &str, mode: Mode, per_ont: &mut dyn FnMut(&hpo::Ontology, &RefOnt) -> Option<(String, String, String)>) {
    use crate::space::all_dags;
    let pool = super::c01::POOL_ROOTS;
    for n in [3usize, 4] {
        let dags = all_dags(n);
        let partners: Vec<Vec<usize>> = (0..dags.len()).map(|i| if n == 3 { (0..dags.len()).collect() } else { (0..4).map(|j| (i * 7 + j * 131 + 1) % dags.len()).collect() }).collect();
        ctx.space(&format!("{prefix}/ontology-sequences/D{n}"), &format!("{} labelled DAGs A over {:?} x {} partner graphs B over the same ids (other annotation pattern): A queried, then B built into the same slot and queried, then A again; every query result against the model of the ontology it was asked of", dags.len(), &pool[..n], partners[0].len()));
        for (i, da) in dags.iter().enumerate() {
            if !ctx.take() {
                continue;
            }
            ctx.state();
            let mk = |d: &crate::space::Dag, s: u32| -> (Facts, RefOnt) {
                let mut f = Facts::from_dag(d, &pool);
                f.version = (2024, 2, 29);
                let ids: Vec<u32> = f.terms.iter().map(|t| t.id).collect();
                f.anns = AnnGroups::new(s, &ids).interleaved();
                let r = RefOnt::derive(&f);
                (f, r)
            };
            let (fa, ra) = mk(da, 0b0011);
            let mut slot: Option<hpo::Ontology> = None;
            for &j in &partners[i] {
                let (fb, rb) = mk(&dags[j], 0b0110);
                if fa.edges != fb.edges {
                    ctx.nontrivial();
                }
                for (step, (f, r)) in [(&fa, &ra), (&fb, &rb), (&fa, &ra)].into_iter().enumerate() {
                    ctx.exec();
                    ctx.validated();
                    ctx.transitions(f.n_steps());
                    // drop the previous ontology first, so that the next one is built where it was
                    drop(slot.take());
                    match drive::build(f, mode) {
                        Ok(o) => slot = Some(o),
                        Err(e) => {
                            ctx.violation("Builder", "[builder] construction fails on valid facts", json!({"case": f.to_json(), "observed": e}));
                            break;
                        }
                    }
                    let ont = slot.as_ref().unwrap();
                    let res = crate::ctx::guard(|| per_ont(ont, r));
                    let order = ["first ontology", "second ontology, built where the first one was", "first ontology again"][step];
                    match res {
                        Ok(None) => {}
                        Ok(Some((site, sig, det))) => {
                            ctx.violation(&site, &format!("[ontology sequence] {sig}"), json!({"queried": f.to_json(), "queried_as": order, "first": fa.to_json(), "second": fb.to_json(), "difference": det}));
                            break;
                        }
                        Err(p) => {
                            ctx.violation("read API", "[ontology sequence] panics", json!({"queried": f.to_json(), "queried_as": order, "first": fa.to_json(), "second": fb.to_json(), "observed": p}));
                            break;
                        }
                    }
                }
            }
            ctx.sample(|| json!({"A": da.describe(), "partners": partners[i].len(), "ids": &pool[..n]}));
        }
    }
}

/// `per_ont` for properties whose oracle is the whole-read-API observation against the model.
pub fn obs_oracle(mode: Mode) -> impl FnMut(&hpo::Ontology, &RefOnt) -> Option<(String, String, String)> {
    move |ont, r| match crate::obs::Obs::of(ont) {
        Err(i) => Some((i.site, "read API inconsistent or panicking".to_string(), i.what)),
        Ok(o) => o.diff(&crate::obs::Obs::expected(r, mode), false),
    }
}

/// A family of small fact sets over HP:1, HP:118 and up to two further terms, with obsolete / replaced
/// terms, odd names and all three record kinds - used by the binary and text format properties.
/// `stride`: keep every stride-th 4-node DAG (1 = all).
pub fn format_family(max_n: usize, stride: usize) -> Vec<(Facts, String)> {
    use crate::space::all_dags;
    let mut out = vec![];
    for n in 2..=max_n {
        let dags = all_dags(n);
        for (di, d) in dags.iter().enumerate() {
            if n >= 4 && di % stride != 0 {
                continue;
            }
            let mut base = Facts::from_dag(d, &super::c01::POOL_ROOTS);
            base.version = (2024, 2, 29);
            let ids: Vec<u32> = base.terms.iter().map(|t| t.id).collect();
            let last = n - 1;
            for flags in 0..5 {
                let mut f = base.clone();
                let mut what = String::new();
                match flags {
                    0 => what.push_str("plain"),
                    4 => {
                        // replacement chain: last -> previous -> first (the stated replacement is the direct one)
                        if n < 3 || ids[last] == 1 || ids[last] == 118 {
                            continue;
                        }
                        f.terms[last].obsolete = true;
                        f.terms[last].replacement = Some(ids[last - 1]);
                        f.terms[last - 1].replacement = Some(ids[0]);
                        what.push_str("replacement chain last -> previous -> first");
                    }
                    1 => {
                        // last term obsolete and replaced by an existing term
                        if ids[last] == 1 || ids[last] == 118 {
                            continue;
                        }
                        f.terms[last].obsolete = true;
                        f.terms[last].replacement = Some(ids[0]);
                        what.push_str("last term obsolete+replaced");
                    }
                    2 => {
                        // a term that is replaced but NOT flagged obsolete, and an obsolete one without replacement
                        f.terms[last].replacement = Some(ids[1]);
                        if n >= 3 {
                            f.terms[2].obsolete = ids[2] != 1 && ids[2] != 118;
                        }
                        what.push_str("replacement without obsolete flag");
                    }
                    _ => {
                        let names = ["", "obsolete x", "\u{e9}", "a: b"];
                        for (i, t) in f.terms.iter_mut().enumerate() {
                            t.name = names[i % names.len()].to_string();
                        }
                        what.push_str("names \"\", obsolete x, é, a: b");
                    }
                }
                let patterns: Vec<Option<u32>> = if flags == 4 {
                    vec![None, Some(0b0110 & ((1 << n) - 1))]
                } else if n <= 3 { std::iter::once(None).chain((0..(1u32 << n)).map(Some)).collect() } else { vec![None, Some(0b0001), Some(0b0110), Some(0b1111)] };
                for p in patterns {
                    let mut g = f.clone();
                    let pw = match p {
                        None => "no records".to_string(),
                        Some(s) => {
                            g.anns = AnnGroups::new(s, &ids).interleaved();
                            format!("S={:?}", crate::space::bits(s, n))
                        }
                    };
                    out.push((g, format!("{} / {} / {}", d.describe(), what, pw)));
                }
                // the same numeric record id in all three kinds
                {
                    let mut g = f.clone();
                    for (kind, name) in [(Kind::Omim, "Seven (omim)"), (Kind::Orpha, "Seven (orpha)"), (Kind::Gene, "SEVEN")] {
                        g.anns.push(Facts::ann(kind, 7, name, Some(ids[last])));
                        g.anns.push(Facts::ann(kind, 7, name, Some(ids[0])));
                    }
                    out.push((g, format!("{} / {} / shared record id 7 in all kinds", d.describe(), what)));
                }
            }
        }
    }
    out
}

/// Family E: HP:1, HP:118 (child of 1), HP:5 (a modifier root, child of 1) and k free terms whose parent
/// sets range over all subsets of {118, 5, earlier free terms} (the empty set = disconnected term),
/// with eight obsolete / replacement patterns (incl. a replacement chain and a mutual replacement) and a record pattern derived from the shape index.
pub fn family_e(k_min: usize, k_max: usize, free_ids: &[u32]) -> Vec<(Facts, String)> {
    family_e_opt(k_min, k_max, free_ids, false)
}

/// `dangling`: additionally a pattern whose replacement names a term that is absent from the ontology
pub fn family_e_opt(k_min: usize, k_max: usize, free_ids: &[u32], dangling: bool) -> Vec<(Facts, String)> {
    let mut out = vec![];
    for k in k_min..=k_max {
        // parent choices of free term i: subsets of [118, 5, free_0..free_{i-1}]
        let mut radices: Vec<u32> = vec![];
        for i in 0..k {
            radices.push(1 << (2 + i));
        }
        let total: u64 = radices.iter().map(|r| *r as u64).product();
        for shape in 0..total {
            let mut rem = shape;
            let mut base = Facts::default();
            base.version = (2024, 2, 29);
            base.terms.push(Facts::term(1, "All"));
            base.terms.push(Facts::term(118, "Phenotypic abnormality"));
            base.terms.push(Facts::term(5, "Mode of inheritance"));
            base.edges.push((118, 1));
            base.edges.push((5, 1));
            for i in 0..k {
                let choice = (rem % radices[i] as u64) as u32;
                rem /= radices[i] as u64;
                let id = free_ids[i];
                base.terms.push(Facts::term(id, &format!("Free {id}")));
                let candidates: Vec<u32> = [118u32, 5].into_iter().chain(free_ids[..i].iter().copied()).collect();
                for (b, c) in candidates.iter().enumerate() {
                    if choice >> b & 1 == 1 {
                        base.edges.push((id, *c));
                    }
                }
            }
            for flags in 0..9u32 {
                if flags == 8 && !dangling {
                    continue;
                }
                if k == 0 && flags > 0 {
                    continue;
                }
                let mut f = base.clone();
                let first = 3;
                let last = 3 + k.saturating_sub(1);
                let what = match flags {
                    0 => "no flags",
                    1 => {
                        f.terms[last].obsolete = true;
                        f.terms[last].replacement = Some(f.terms[first].id);
                        "last free term obsolete, replaced by the first free term"
                    }
                    2 => {
                        f.terms[last].obsolete = true;
                        f.terms[last].replacement = Some(118);
                        "last free term obsolete, replaced by HP:118"
                    }
                    3 => {
                        f.terms[first].replacement = Some(f.terms[last].id);
                        "first free term replaced by the last one without obsolete flag"
                    }
                    4 => {
                        if k < 2 {
                            continue;
                        }
                        for t in [last, last - 1] {
                            f.terms[t].obsolete = true;
                            f.terms[t].replacement = Some(if k >= 3 { f.terms[first].id } else { 5 });
                        }
                        "two obsolete terms with the same replacement"
                    }
                    5 => {
                        f.terms[last].obsolete = true;
                        "last free term obsolete without replacement"
                    }
                    6 => {
                        // replacement chain: last -> previous -> first (both links can be members of one set)
                        if k < 3 {
                            continue;
                        }
                        f.terms[last].obsolete = true;
                        f.terms[last].replacement = Some(f.terms[last - 1].id);
                        f.terms[last - 1].obsolete = true;
                        f.terms[last - 1].replacement = Some(f.terms[first].id);
                        "replacement chain last -> previous -> first"
                    }
                    8 => {
                        f.terms[last].obsolete = true;
                        f.terms[last].replacement = Some(9_999_998);
                        f.terms[first].replacement = Some(4242);
                        "replacements naming terms that are absent from the ontology"
                    }
                    _ => {
                        // mutual replacement
                        if k < 2 {
                            continue;
                        }
                        f.terms[last].replacement = Some(f.terms[last - 1].id);
                        f.terms[last - 1].replacement = Some(f.terms[last].id);
                        f.terms[last].obsolete = true;
                        "two terms naming each other as replacement"
                    }
                };
                if (flags == 1 || flags == 3) && k < 2 {
                    continue; // would replace a term by itself
                }
                let n = f.terms.len();
                let ids: Vec<u32> = f.terms.iter().map(|t| t.id).collect();
                let s = ((shape * 7 + flags as u64 * 3 + 1) % (1u64 << n)) as u32;
                f.anns = AnnGroups::new(s, &ids).interleaved();
                out.push((f, format!("k={k} shape={shape} flags: {what}; annotated subset {:?}", crate::space::bits(s, n))));
            }
        }
    }
    out
}

/// Structured large graphs (beyond the exhaustive DAG bound): shapes that cross the size boundaries in
/// the code (inline capacity 30 of an id group, recursion depth of the ancestor cache).
/// ids: HP:1 is the top, HP:118 its child, further terms 1000+i (or descending from 9000 when `reversed_ids`).
pub fn large_family() -> Vec<(Facts, String)> {
    let mut out = vec![];
    let mk = |edges: &[(usize, usize)], n: usize, reversed_ids: bool, what: String| -> (Facts, String) {
        // node 0 = HP:1, node 1 = HP:118, node k>=2 = 1000+k (ascending) or 9000-k (descending ids)
        let id = |k: usize| -> u32 {
            match k {
                0 => 1,
                1 => 118,
                _ => {
                    if reversed_ids {
                        9000 - k as u32
                    } else {
                        1000 + k as u32
                    }
                }
            }
        };
        let mut f = Facts::default();
        f.version = (2024, 2, 29);
        for k in 0..n {
            f.terms.push(Facts::term(id(k), &format!("N{k}")));
        }
        for &(c, p) in edges {
            f.edges.push((id(c), id(p)));
        }
        (f, what)
    };
    for reversed in [false, true] {
        let tag = if reversed { " (descendants have smaller ids)" } else { "" };
        // chains: node k is_a node k-1
        for n in [31usize, 32, 33, 34, 35, 36, 40, 64, 100] {
            let edges: Vec<(usize, usize)> = (1..n).map(|k| (k, k - 1)).collect();
            out.push(mk(&edges, n, reversed, format!("chain of {n} terms{tag}")));
        }
        // a deep chain of 300 terms with a side term that is_a node 290 and is_a node 5 (a shortcut to the top):
        // beyond every 8-bit depth counter (255 / 256 / 257 generations), both id directions
        {
            let n = 300usize;
            let mut edges: Vec<(usize, usize)> = (1..n).map(|k| (k, k - 1)).collect();
            edges.push((n, 290));
            edges.push((n, 5));
            out.push(mk(&edges, n + 1, reversed, format!("deep chain of {n} terms plus a side term below node 290 and node 5{tag}")));
        }
        // fan-in: one term with m direct parents, all children of HP:118
        for m in [29usize, 30, 31, 32, 40, 300] {
            if m == 300 && reversed {
                continue; // one direction is enough for the 8-bit boundary (255/256 parents, children, terms of a record)
            }
            let mut edges = vec![(1, 0)];
            for k in 0..m {
                edges.push((2 + k, 1));
                edges.push((2 + m, 2 + k));
            }
            out.push(mk(&edges, m + 3, reversed, format!("one term with {m} direct parents{tag}")));
        }
        // fan-out: HP:118 with 40 children, each with one grandchild
        {
            let mut edges = vec![(1, 0)];
            for k in 0..40 {
                edges.push((2 + k, 1));
                edges.push((42 + k, 2 + k));
            }
            out.push(mk(&edges, 82, reversed, format!("40 children with one grandchild each{tag}")));
        }
        // complete binary tree of depth 5 (63 nodes): node k is_a node (k-1)/2
        {
            let edges: Vec<(usize, usize)> = (1..63).map(|k| (k, (k - 1) / 2)).collect();
            out.push(mk(&edges, 63, reversed, format!("complete binary tree, 63 terms{tag}")));
        }
        // ladder: levels of two terms, each is_a both terms of the level above (many routes), 8 levels
        {
            let mut edges = vec![(1, 0)];
            let levels = 8;
            for l in 0..levels {
                for s in 0..2 {
                    let node = 2 + 2 * l + s;
                    if l == 0 {
                        edges.push((node, 1));
                    } else {
                        edges.push((node, 2 + 2 * (l - 1)));
                        edges.push((node, 2 + 2 * (l - 1) + 1));
                    }
                }
            }
            out.push(mk(&edges, 2 + 2 * levels, reversed, format!("ladder of {levels} levels with 2^{levels} routes{tag}")));
        }
        // total order: every term is_a every earlier term (12 terms)
        {
            let n = 12;
            let mut edges = vec![];
            for c in 1..n {
                for p in 0..c {
                    edges.push((c, p));
                }
            }
            out.push(mk(&edges, n, reversed, format!("total order on {n} terms (every term is_a all earlier ones){tag}")));
        }
        // a trunk of 33 terms that forks: a, b below the trunk end, c below b, d below a and b, e below c.
        // d and e then have more than 30 ancestors each, some shared and some private, with private ids below
        // and above shared ones (both id directions)
        {
            let t = 33usize;
            let mut edges: Vec<(usize, usize)> = (1..=t).map(|k| (k, k - 1)).collect();
            let (a, b, c, d, e) = (t + 1, t + 2, t + 3, t + 4, t + 5);
            edges.extend([(a, t), (b, t), (c, b), (d, a), (d, b), (e, c)]);
            out.push(mk(&edges, e + 1, reversed, format!("trunk of {t} terms with a fork (terms with > 30 partly shared ancestors){tag}")));
            // the same with the fork terms numbered so that private ancestors sit between shared ones
            let mut edges2: Vec<(usize, usize)> = (1..=t).map(|k| (k, k - 1)).collect();
            let (b2, a2, c2, e2, d2) = (t + 1, t + 2, t + 3, t + 4, t + 5);
            edges2.extend([(a2, t), (b2, t), (c2, b2), (d2, a2), (d2, b2), (e2, c2)]);
            out.push(mk(&edges2, d2 + 1, reversed, format!("trunk of {t} terms with a fork, fork terms numbered b<a<c<e<d{tag}")));
        }
        // two long chains joined at the bottom (33 and 35 ancestors through two parents)
        {
            let mut edges = vec![(1, 0)];
            let (a, b) = (33usize, 35usize);
            for k in 0..a {
                edges.push((2 + k, if k == 0 { 1 } else { 2 + k - 1 }));
            }
            for k in 0..b {
                edges.push((2 + a + k, if k == 0 { 1 } else { 2 + a + k - 1 }));
            }
            let leaf = 2 + a + b;
            edges.push((leaf, 2 + a - 1));
            edges.push((leaf, 2 + a + b - 1));
            out.push(mk(&edges, leaf + 1, reversed, format!("leaf below two chains of {a} and {b} terms{tag}")));
        }
    }
    out
}

/// Shapes beyond round-number depth and work budgets (512, 1000, 1024, 2048 levels; 10 000 routes): a chain of
/// 1100 terms (ids ascending with depth), a chain of 2100 terms (ids descending with depth), each with a side
/// term below the last-but-ten node and node 5, and a two-wide ladder of 14 levels (2^14 routes to the top).
pub fn very_deep_family() -> Vec<(Facts, String)> {
    let mut out = vec![];
    for (n, reversed) in [(1100usize, false), (2100, true)] {
        let id = |k: usize| -> u32 {
            match k {
                0 => 1,
                1 => 118,
                _ => if reversed { 9000 - k as u32 } else { 1000 + k as u32 },
            }
        };
        let mut f = Facts::default();
        f.version = (2024, 2, 29);
        for k in 0..=n {
            f.terms.push(Facts::term(id(k), &format!("N{k}")));
        }
        for k in 1..n {
            f.edges.push((id(k), id(k - 1)));
        }
        f.edges.push((id(n), id(n - 10)));
        f.edges.push((id(n), id(5)));
        out.push((f, format!("deep chain of {n} terms plus a side term below node {} and node 5{}", n - 10, if reversed { " (descendants have smaller ids)" } else { "" })));
    }
    {
        let levels = 14usize;
        let mut f = Facts::default();
        f.version = (2024, 2, 29);
        f.terms.push(Facts::term(1, "N0"));
        f.terms.push(Facts::term(118, "N1"));
        f.edges.push((118, 1));
        for l in 0..levels {
            for s in 0..2 {
                let id = 1000 + (2 * l + s) as u32;
                f.terms.push(Facts::term(id, &format!("L{l}.{s}")));
                if l == 0 {
                    f.edges.push((id, 118));
                } else {
                    f.edges.push((id, 1000 + (2 * (l - 1)) as u32));
                    f.edges.push((id, 1000 + (2 * (l - 1) + 1) as u32));
                }
            }
        }
        out.push((f, format!("ladder of {levels} levels with 2^{levels} routes")));
    }
    out
}

/// positions worth pairing in the very deep shapes
pub fn very_deep_positions(n: usize) -> Vec<usize> {
    let mut v: Vec<usize> = vec![0, 1, 2, 5, 6, n / 2, n.saturating_sub(11), n.saturating_sub(10), n.saturating_sub(2), n - 1];
    for b in [255usize, 256, 257, 511, 512, 513, 999, 1000, 1001, 1023, 1024, 1025, 1026, 2047, 2048, 2049, 4095, 4096, 4097, 4098] {
        v.push(b);
    }
    v.retain(|k| *k < n);
    v.sort_unstable();
    v.dedup();
    v
}

/// For shapes too big for all ordered pairs: the positions (in `f.terms`) worth pairing - both ends, the
/// neighbourhood of the 8-bit depth boundary, the branch points of the deep chain, every 41st term.
pub fn selected_positions(n: usize) -> Vec<usize> {
    let mut v: Vec<usize> = vec![0, 1, 2, 5, 6, 7, 30, 31, 32, 33, n / 2, n.saturating_sub(2), n - 1];
    for k in [254usize, 255, 256, 257, 258, 259, 289, 290, 291] {
        v.push(k);
    }
    v.extend((0..n).step_by(41));
    v.retain(|k| *k < n);
    v.sort_unstable();
    v.dedup();
    v
}

/// Supply orders for large fact sets: ascending, descending, rotated by half, even-then-odd, inside-out.
pub fn large_orders(n: usize) -> Vec<(Vec<usize>, &'static str)> {
    let asc: Vec<usize> = (0..n).collect();
    let desc: Vec<usize> = (0..n).rev().collect();
    let rot: Vec<usize> = (0..n).map(|i| (i + n / 2) % n).collect();
    let eo: Vec<usize> = (0..n).step_by(2).chain((1..n).step_by(2)).collect();
    let mut io: Vec<usize> = vec![];
    let (mut lo, mut hi) = (n as isize / 2 - 1, n / 2);
    while lo >= 0 || hi < n {
        if hi < n {
            io.push(hi);
            hi += 1;
        }
        if lo >= 0 {
            io.push(lo as usize);
            lo -= 1;
        }
    }
    vec![(asc, "ascending (ancestors first)"), (desc, "descending (descendants first)"), (rot, "rotated by half"), (eo, "even positions then odd positions"), (io, "inside-out")]
}
