//! Shared building blocks for the ontology-shaped properties: annotation patterns and path runners.

use crate::ctx::Ctx;
use crate::drive::{self, check_against_model};
use crate::encode::{self, EncOpts};
use crate::jax::{self, JaxOpts};
use crate::model::{AnnFact, Facts, Kind, Mode, RefOnt};
use serde_json::{json, Value};

pub const G1: (Kind, u32, &str) = (Kind::Gene, 11, "GENE1");
pub const G2: (Kind, u32, &str) = (Kind::Gene, 22, "GENE2");
pub const G3: (Kind, u32, &str) = (Kind::Gene, 33, "GENE3");
pub const O1: (Kind, u32, &str) = (Kind::Omim, 600_001, "Disease one");
pub const O2: (Kind, u32, &str) = (Kind::Omim, 600_002, "Disease two, bare");
pub const R1: (Kind, u32, &str) = (Kind::Orpha, 77, "Orpha one");

pub fn rot(mask: u32, by: usize, n: usize) -> u32 {
    let mut out = 0;
    for i in 0..n {
        if mask >> i & 1 == 1 {
            out |= 1 << ((i + by) % n);
        }
    }
    out
}

fn facts_for(rec: (Kind, u32, &str), mask: u32, ids: &[u32]) -> Vec<AnnFact> {
    (0..ids.len()).filter(|i| mask >> i & 1 == 1).map(|i| Facts::ann(rec.0, rec.1, rec.2, Some(ids[i]))).collect()
}

/// The annotation groups derived from one subset S of the nodes:
/// g1 <- S, g2 <- complement(S), o1 <- rot1(S), r1 <- rot2(S), plus bare g3 and o2.
pub struct AnnGroups {
    pub g1: Vec<AnnFact>,
    pub g2: Vec<AnnFact>,
    pub o1: Vec<AnnFact>,
    pub r1: Vec<AnnFact>,
    pub bare: Vec<AnnFact>,
}

impl AnnGroups {
    pub fn new(s: u32, ids: &[u32]) -> AnnGroups {
        let n = ids.len();
        let full = (1u32 << n) - 1;
        AnnGroups {
            g1: facts_for(G1, s, ids),
            g2: facts_for(G2, full & !s, ids),
            o1: facts_for(O1, rot(s, 1, n), ids),
            r1: facts_for(R1, rot(s, 2, n), ids),
            bare: vec![Facts::ann(G3.0, G3.1, G3.2, None), Facts::ann(O2.0, O2.1, O2.2, None)],
        }
    }
    /// g1 facts in the given order first, then the other groups in canonical order
    pub fn sequential(&self, g1_order: &[usize]) -> Vec<AnnFact> {
        let mut v: Vec<AnnFact> = vec![self.bare[0].clone()];
        v.extend(g1_order.iter().map(|&i| self.g1[i].clone()));
        v.extend(self.g2.iter().cloned());
        v.extend(self.o1.iter().cloned());
        v.push(self.bare[1].clone());
        v.extend(self.r1.iter().cloned());
        v
    }
    /// round-robin interleaving of all groups
    pub fn interleaved(&self) -> Vec<AnnFact> {
        let groups: [&Vec<AnnFact>; 5] = [&self.g1, &self.o1, &self.g2, &self.r1, &self.bare];
        let mut v = vec![];
        let max = groups.iter().map(|g| g.len()).max().unwrap_or(0);
        for i in 0..max {
            for g in groups {
                if let Some(a) = g.get(i) {
                    v.push(a.clone());
                }
            }
        }
        v
    }
}

/// Run the facts through the Builder and compare with the model.
pub fn via_builder(ctx: &mut Ctx, f: &Facts, r: &RefOnt, mode: Mode, what: &str) -> Option<crate::obs::Obs> {
    ctx.transitions(f.n_steps());
    match drive::build(f, mode) {
        Err(e) => {
            ctx.exec();
            ctx.violation("Builder", "[builder] construction fails on valid facts", json!({"case": f.to_json(), "observed": e, "order": what}));
            None
        }
        Ok(ont) => {
            let case = || json!({"facts": f.to_json(), "order": what, "rust": f.to_rust(mode == Mode::Defaults)});
            check_against_model(ctx, &ont, r, mode, "builder", &case)
        }
    }
}

/// Encode with the independent encoder, decode with the real decoder, compare with the model.
pub fn via_binary(ctx: &mut Ctx, f: &Facts, o: &EncOpts, what: &str) -> Option<crate::obs::Obs> {
    let version = o.version;
    let pf = encode::project(f, version);
    let r = RefOnt::derive(&pf);
    ctx.transitions(pf.n_steps());
    let bytes = encode::encode(&pf, o);
    let case = || json!({"facts": pf.to_json(), "format_version": version, "order": what, "bytes_len": bytes.len()});
    match drive::from_bytes(&bytes) {
        Ok(Ok(ont)) => check_against_model(ctx, &ont, &r, Mode::Defaults, &format!("binary v{version}"), &case),
        Ok(Err(e)) => {
            ctx.exec();
            ctx.violation("Ontology::from_bytes", &format!("[binary v{version}] rejects a file laid out as documented"), json!({"case": case(), "observed": e}));
            None
        }
        Err(p) => {
            ctx.exec();
            ctx.violation("Ontology::from_bytes", &format!("[binary v{version}] panics on a file laid out as documented"), json!({"case": case(), "observed": p}));
            None
        }
    }
}

/// Render as JAX files, load with the real loader, compare with the model.
/// Bare records cannot be expressed in the text formats and are dropped from the expectation.
pub fn via_jax(ctx: &mut Ctx, f: &Facts, o: &JaxOpts, transitive: bool, what: &str) -> Option<crate::obs::Obs> {
    let mut tf = f.clone();
    tf.anns.retain(|a| a.term.is_some());
    let r = RefOnt::derive(&tf);
    ctx.transitions(tf.n_steps());
    let rendered = jax::render(&tf, o);
    let case = || -> Value { json!({"facts": tf.to_json(), "order": what, "options": format!("{o:?}"), "transitive_loader": transitive, "hp.obo": rendered.obo, "phenotype.hpoa": rendered.hpoa, "genes": if transitive { &rendered.phenotype_to_genes } else { &rendered.genes_to_phenotype }}) };
    let path = if transitive { "jax transitive" } else { "jax" };
    match jax::load(&rendered, transitive) {
        Ok(Ok(ont)) => check_against_model(ctx, &ont, &r, Mode::Defaults, path, &case),
        Ok(Err(e)) => {
            ctx.exec();
            ctx.violation("Ontology::from_standard", &format!("[{path}] rejects valid JAX files"), json!({"case": case(), "observed": e}));
            None
        }
        Err(p) => {
            ctx.exec();
            ctx.violation("Ontology::from_standard", &format!("[{path}] panics on valid JAX files"), json!({"case": case(), "observed": p}));
            None
        }
    }
}

/// A family of small fact sets over HP:1, HP:118 and up to two further terms, with obsolete / replaced
/// terms, odd names and all three record kinds - used by the binary and text format properties.
/// `stride`: keep every stride-th 4-node DAG (1 = all).
pub fn format_family(max_n: usize, stride: usize) -> Vec<(Facts, String)> {
    use crate::space::all_dags;
    let mut out = vec![];
    for n in 2..=max_n {
        let dags = all_dags(n);
        for (di, d) in dags.iter().enumerate() {
            if n >= 4 && di % stride != 0 {
                continue;
            }
            let mut base = Facts::from_dag(d, &super::c01::POOL_ROOTS);
            base.version = (2024, 2, 29);
            let ids: Vec<u32> = base.terms.iter().map(|t| t.id).collect();
            let last = n - 1;
            for flags in 0..4 {
                let mut f = base.clone();
                let mut what = String::new();
                match flags {
                    0 => what.push_str("plain"),
                    1 => {
                        // last term obsolete and replaced by an existing term
                        if ids[last] == 1 || ids[last] == 118 {
                            continue;
                        }
                        f.terms[last].obsolete = true;
                        f.terms[last].replacement = Some(ids[0]);
                        what.push_str("last term obsolete+replaced");
                    }
                    2 => {
                        // a term that is replaced but NOT flagged obsolete, and an obsolete one without replacement
                        f.terms[last].replacement = Some(ids[1]);
                        if n >= 3 {
                            f.terms[2].obsolete = ids[2] != 1 && ids[2] != 118;
                        }
                        what.push_str("replacement without obsolete flag");
                    }
                    _ => {
                        let names = ["", "x", "\u{e9}", "a: b"];
                        for (i, t) in f.terms.iter_mut().enumerate() {
                            t.name = names[i % names.len()].to_string();
                        }
                        what.push_str("names \"\", x, é, a: b");
                    }
                }
                let patterns: Vec<Option<u32>> = if n <= 3 { std::iter::once(None).chain((0..(1u32 << n)).map(Some)).collect() } else { vec![None, Some(0b0001), Some(0b0110), Some(0b1111)] };
                for p in patterns {
                    let mut g = f.clone();
                    let pw = match p {
                        None => "no records".to_string(),
                        Some(s) => {
                            g.anns = AnnGroups::new(s, &ids).interleaved();
                            format!("S={:?}", crate::space::bits(s, n))
                        }
                    };
                    out.push((g, format!("{} / {} / {}", d.describe(), what, pw)));
                }
            }
        }
    }
    out
}

/// Family E: HP:1, HP:118 (child of 1), HP:5 (a modifier root, child of 1) and k free terms whose parent
/// sets range over all subsets of {118, 5, earlier free terms} (the empty set = disconnected term),
/// with six obsolete / replacement patterns and a record pattern derived from the shape index.
pub fn family_e(k_min: usize, k_max: usize, free_ids: &[u32]) -> Vec<(Facts, String)> {
    let mut out = vec![];
    for k in k_min..=k_max {
        // parent choices of free term i: subsets of [118, 5, free_0..free_{i-1}]
        let mut radices: Vec<u32> = vec![];
        for i in 0..k {
            radices.push(1 << (2 + i));
        }
        let total: u64 = radices.iter().map(|r| *r as u64).product();
        for shape in 0..total {
            let mut rem = shape;
            let mut base = Facts::default();
            base.version = (2024, 2, 29);
            base.terms.push(Facts::term(1, "All"));
            base.terms.push(Facts::term(118, "Phenotypic abnormality"));
            base.terms.push(Facts::term(5, "Mode of inheritance"));
            base.edges.push((118, 1));
            base.edges.push((5, 1));
            for i in 0..k {
                let choice = (rem % radices[i] as u64) as u32;
                rem /= radices[i] as u64;
                let id = free_ids[i];
                base.terms.push(Facts::term(id, &format!("Free {id}")));
                let candidates: Vec<u32> = [118u32, 5].into_iter().chain(free_ids[..i].iter().copied()).collect();
                for (b, c) in candidates.iter().enumerate() {
                    if choice >> b & 1 == 1 {
                        base.edges.push((id, *c));
                    }
                }
            }
            for flags in 0..6u32 {
                if k == 0 && flags > 0 {
                    continue;
                }
                let mut f = base.clone();
                let first = 3;
                let last = 3 + k.saturating_sub(1);
                let what = match flags {
                    0 => "no flags",
                    1 => {
                        f.terms[last].obsolete = true;
                        f.terms[last].replacement = Some(f.terms[first].id);
                        "last free term obsolete, replaced by the first free term"
                    }
                    2 => {
                        f.terms[last].obsolete = true;
                        f.terms[last].replacement = Some(118);
                        "last free term obsolete, replaced by HP:118"
                    }
                    3 => {
                        f.terms[first].replacement = Some(f.terms[last].id);
                        "first free term replaced by the last one without obsolete flag"
                    }
                    4 => {
                        if k < 2 {
                            continue;
                        }
                        for t in [last, last - 1] {
                            f.terms[t].obsolete = true;
                            f.terms[t].replacement = Some(if k >= 3 { f.terms[first].id } else { 5 });
                        }
                        "two obsolete terms with the same replacement"
                    }
                    _ => {
                        f.terms[last].obsolete = true;
                        "last free term obsolete without replacement"
                    }
                };
                if (flags == 1 || flags == 3) && k < 2 {
                    continue; // would replace a term by itself
                }
                let n = f.terms.len();
                let ids: Vec<u32> = f.terms.iter().map(|t| t.id).collect();
                let s = ((shape * 7 + flags as u64 * 3 + 1) % (1u64 << n)) as u32;
                f.anns = AnnGroups::new(s, &ids).interleaved();
                out.push((f, format!("k={k} shape={shape} flags: {what}; annotated subset {:?}", crate::space::bits(s, n))));
            }
        }
    }
    out
}
