//! C20 - term-id text and byte conversions are total and mutually inverse.

use crate::ctx::{fnv_str, guard, Ctx};
use hpo::annotations::AnnotationId;
use hpo::HpoTermId;
use serde_json::json;

const SITE_PARSE: &str = "HpoTermId::try_from(&str)";

/// Reference parser: what the property demands of `try_from(&str)`.
#[derive(Debug, PartialEq, Eq, Clone, Copy)]
pub enum Expect {
    Ok(u32),
    Err,
    /// '+' directly after the prefix followed by an ASCII digit run whose value fits u32: the statement does not say
    /// whether the sign is part of "an unsigned decimal" (u32::from_str accepts it). Allowed: Err, or Ok of exactly
    /// this value - never another id, never a panic.
    Signed(u32),
}

pub fn reference(s: &str) -> Expect {
    if s.len() < 4 {
        return Expect::Err;
    }
    if !s.is_char_boundary(3) {
        return Expect::Err;
    }
    let rest = &s[3..];
    if rest.bytes().all(|b| b.is_ascii_digit()) {
        // unsigned decimal; value must fit u32
        let mut v: u128 = 0;
        for b in rest.bytes() {
            v = v * 10 + (b - b'0') as u128;
            if v > u32::MAX as u128 {
                return Expect::Err;
            }
        }
        return Expect::Ok(v as u32);
    }
    if let Some(r) = rest.strip_prefix('+') {
        if !r.is_empty() && r.bytes().all(|b| b.is_ascii_digit()) {
            // u32::from_str accepts a sign; the property does not say. Under BOTH readings a value beyond u32::MAX
            // is an error, and under the accepting reading the id is the number behind the sign.
            let mut v: u128 = 0;
            for b in r.bytes() {
                v = v * 10 + (b - b'0') as u128;
                if v > u32::MAX as u128 {
                    return Expect::Err;
                }
            }
            return Expect::Signed(v as u32);
        }
    }
    Expect::Err
}

fn check_string(ctx: &mut Ctx, s: &str) {
    ctx.exec();
    ctx.validated();
    ctx.transitions(1);
    let exp = reference(s);
    let got = guard(|| HpoTermId::try_from(s));
    let (sig, obs): (Option<&str>, String) = match (&exp, &got) {
        (_, Err(msg)) => (Some("panics instead of returning"), format!("panic: {msg}")),
        (Expect::Signed(_), Ok(Err(_))) => {
            ctx.bump("refused: '+' sign before the digits (statement silent)", 1);
            (None, String::new())
        }
        (Expect::Signed(v), Ok(Ok(id))) => {
            if id.as_u32() == *v {
                ctx.bump("accepted: '+' sign before the digits (statement silent)", 1);
                (None, String::new())
            } else {
                (Some("accepts a '+' sign but returns a different id than the decimal number behind it"), format!("Ok({})", id.as_u32()))
            }
        }
        (Expect::Ok(v), Ok(Ok(id))) => {
            if id.as_u32() == *v {
                // (how `id == text` and `From<String>` treat a NON-canonical spelling that try_from accepts - "HP:118",
                // "XYZ0000118", a 70 000-byte zero run - is not part of the statement: they are only exercised on the
                // canonical rendering of every id, in check_id)
                (None, String::new())
            } else {
                (Some("returns a different id than the decimal number in the text"), format!("Ok({})", id.as_u32()))
            }
        }
        (Expect::Ok(_), Ok(Err(e))) => (Some("rejects a valid unsigned 32-bit decimal"), format!("Err({e})")),
        (Expect::Err, Ok(Ok(id))) => (Some("accepts text that is not an unsigned 32-bit decimal after the prefix"), format!("Ok({})", id.as_u32())),
        (Expect::Err, Ok(Err(_))) => (None, String::new()),
    };
    let outcome = match &got {
        Err(_) => "panic".to_string(),
        Ok(Ok(_)) => "ok".to_string(),
        Ok(Err(_)) => "err".to_string(),
    };
    ctx.outcome(fnv_str(&format!("{:?}/{}", std::mem::discriminant(&exp), outcome)));
    if let Some(sig) = sig {
        ctx.violation(SITE_PARSE, sig, json!({"input": s, "input_bytes": s.as_bytes(), "expected": format!("{exp:?}"), "observed": obs,
            "rust": format!("let _ = hpo::HpoTermId::try_from({s:?});")}));
    }
}

fn check_id(ctx: &mut Ctx, v: u32) {
    ctx.transitions(5);
    let r = guard(|| {
        let id = HpoTermId::from_u32(v);
        let text = id.to_string();
        let want = format!("HP:{v:07}");
        if text != want {
            return Some(("HpoTermId::to_string", "rendering is not HP: + zero-padded 7 digits", format!("{text} != {want}")));
        }
        match HpoTermId::try_from(text.as_str()) {
            Ok(back) if back == id && back.as_u32() == v => {}
            Ok(back) => return Some((SITE_PARSE, "parse(render(id)) != id", format!("{} -> {}", v, back.as_u32()))),
            Err(e) => return Some((SITE_PARSE, "parse(render(id)) fails", format!("{v}: {e}"))),
        }
        let bytes = id.to_be_bytes();
        if bytes != v.to_be_bytes() {
            return Some(("HpoTermId::to_be_bytes", "not the big-endian bytes of the number", format!("{bytes:?}")));
        }
        let back = HpoTermId::from(bytes);
        if back != id || back.as_u32() != v {
            return Some(("HpoTermId::from([u8;4])", "from(to_be_bytes(id)) != id", format!("{} -> {}", v, back.as_u32())));
        }
        if HpoTermId::from(v) != id || id.as_u32() != v {
            return Some(("HpoTermId::from_u32/as_u32", "from_u32/as_u32/From<u32> disagree", format!("{v}")));
        }
        // the other two ways of reading the canonical text ("parsing that rendering returns the same id"); the integer
        // conversions From<u64 | usize | u16>, to_usize and the order of ids are not text or byte conversions and are
        // not in the statement (the order of ids is C12's subject): not demanded here
        if HpoTermId::from(text.clone()) != id {
            return Some(("HpoTermId::from(String)", "from(render(id)) != id", format!("{v}")));
        }
        if !(id == *text.as_str()) || !(id == text.as_str()) {
            return Some(("HpoTermId: PartialEq<str>", "id != its own rendering", format!("{v}")));
        }
        None
    });
    match r {
        Ok(None) => {}
        Ok(Some((site, sig, obs))) => ctx.violation(site, sig, json!({"id": v, "observed": obs})),
        Err(msg) => ctx.violation("HpoTermId conversions", "panics instead of returning", json!({"id": v, "observed": msg})),
    }
}

pub const ALPHABET: [&str; 15] = ["H", "P", ":", "0", "1", "9", "+", "-", " ", "\u{e9}", "\u{20ac}", "\u{1F600}", "\n", "\t", "\u{a0}"];

pub fn run(ctx: &mut Ctx) {
    ctx.rule = "ids: every id 0..10^7 in blocks of 10^4 plus u32 borders; strings: every string of <= L symbols over {H,P,:,0,1,9,+,-,space,é,€,😀,\\n,\\t,NBSP} (L=6 quick, 7 thorough) plus digit strings around u32::MAX, digit runs of every length 1..=10 with one or two positions replaced, zero-led runs with radix letters, long inputs; a case is distinct by construction; non-trivial = string of >= 4 bytes (passes the length guard) or an id".into();
    ctx.assumptions = vec![
        "a '+' sign directly after the 3-byte prefix followed by ASCII digits only is don't-care between Err and Ok(the number behind the sign) (u32::from_str accepts it, the property is silent); Ok of any other id is a violation, and a number beyond u32::MAX behind the sign must be Err under both readings".into(),
        "the 3-byte prefix itself is not inspected (the property only constrains the text after it)".into(),
        "`id == text` and `From<String>` are exercised on the canonical rendering of every id only; what they do with another spelling that try_from accepts, the integer conversions From<u64 | usize | u16> / to_usize and the order of ids are not part of the statement".into(),
    ];

    // ---- Space A: ids
    ctx.space("ids/all-10^7", "every id 0..=9_999_999, one case per block of 10_000");
    for block in 0..1000u32 {
        if !ctx.take() {
            continue;
        }
        ctx.state();
        for v in block * 10_000..(block + 1) * 10_000 {
            check_id(ctx, v);
        }
        ctx.execs(10_000);
        ctx.validateds(10_000);
        ctx.nontrivials(10_000);
        ctx.outcome(1);
        ctx.sample(|| json!({"ids": format!("{}..{}", block * 10_000, (block + 1) * 10_000), "checks": "to_string, try_from(to_string), to_be_bytes, from([u8;4]), from_u32, as_u32"}));
    }
    ctx.space("ids/borders", "10^7, 10^7+1, 2^31-1, 2^31, 2^31+1, u32::MAX-1, u32::MAX, 2^k, 2^k+-1");
    let mut borders: Vec<u32> = vec![10_000_000, 10_000_001, 99_999_999, 100_000_000, 999_999_999, 1_000_000_000, u32::MAX - 1, u32::MAX];
    for k in 0..32 {
        let p = 1u32 << k;
        borders.push(p);
        borders.push(p.wrapping_sub(1));
        borders.push(p.wrapping_add(1));
    }
    borders.sort_unstable();
    borders.dedup();
    for v in borders {
        if !ctx.take() {
            continue;
        }
        ctx.state();
        ctx.exec();
        ctx.validated();
        ctx.nontrivial();
        check_id(ctx, v);
        ctx.sample(|| json!({"id": v}));
    }

    // ---- Space B: all strings up to L symbols
    let max_len = if ctx.tier.thorough() { 7 } else { 6 };
    ctx.space("strings/all", &format!("all strings of 0..={max_len} symbols over the 15-symbol alphabet; one case per (length, first two symbols)"));
    for len in 0..=max_len {
        if len < 2 {
            if ctx.take() {
                ctx.state();
                if len == 0 {
                    check_string(ctx, "");
                } else {
                    for a in ALPHABET {
                        check_string(ctx, a);
                    }
                }
            }
            continue;
        }
        for a in 0..ALPHABET.len() {
            for b in 0..ALPHABET.len() {
                if !ctx.take() {
                    continue;
                }
                ctx.state();
                let rest = len - 2;
                let total = ALPHABET.len().pow(rest as u32);
                let mut s = String::with_capacity(32);
                let mut nontriv = 0u64;
                for mut k in 0..total {
                    s.clear();
                    s.push_str(ALPHABET[a]);
                    s.push_str(ALPHABET[b]);
                    for _ in 0..rest {
                        s.push_str(ALPHABET[k % ALPHABET.len()]);
                        k /= ALPHABET.len();
                    }
                    if s.len() >= 4 {
                        nontriv += 1;
                    }
                    check_string(ctx, &s);
                }
                ctx.nontrivials(nontriv);
                if len == 4 && a == 0 && b == 9 {
                    ctx.sample(|| json!({"length": len, "first_two": [ALPHABET[a], ALPHABET[b]], "strings": total, "example": format!("{}{}{}{}", ALPHABET[a], ALPHABET[b], "1", "9")}));
                }
            }
        }
    }

    // ---- Space C: digit strings around u32::MAX behind different prefixes
    ctx.space("strings/u32-border", "prefix x decimal renderings around u32::MAX, with leading zeros and over-long digit runs");
    let mut nums: Vec<String> = vec![];
    for d in -3i64..=3 {
        nums.push(format!("{}", (u32::MAX as i64 + d)));
        nums.push(format!("000{}", (u32::MAX as i64 + d)));
    }
    for s in ["0", "00000000", "0000001", "9999999", "10000000", "42949672950", "4294967295000", "99999999999999999999", "340282366920938463463374607431768211456", "18446744073709551616", "000000000000000000000000000000000000001"] {
        nums.push(s.to_string());
    }
    for prefix in ["HP:", "XYZ", "   ", "\u{e9}:", "\u{20ac}", "000"] {
        for n in &nums {
            if !ctx.take() {
                continue;
            }
            ctx.state();
            ctx.nontrivial();
            let s = format!("{prefix}{n}");
            check_string(ctx, &s);
            ctx.sample(|| json!({"input": s}));
        }
    }
    // ---- Space D: digit runs of every length 1..=10 (the canonical rendering has 7) with ONE or TWO positions
    // replaced by every ASCII byte and by multi-byte characters, Unicode numerals included (u32::from_str only
    // knows ASCII digits): a parser with a special path for some length, or with a wider notion of "digit"
    // (the 0x30..0x3F column, char::is_numeric) differs from the reference only here
    ctx.space("strings/deviations-from-digit-runs", "prefixes {HP:, XYZ, 3-byte euro sign} x digit runs of length 1..=10 x every single position replaced by each of the 128 ASCII bytes and 12 multi-byte characters (6 of them Unicode numerals), and every pair of positions replaced by a pair from {: ; < = > ? / + - space, arabic-indic 3, superscript 2}; one case per (prefix, length)");
    let specials: [&str; 12] = ["\u{663}", "\u{b2}", "\u{2167}", "\u{ff11}", "\u{1d7d9}", "\u{bef}", "\u{e9}", "\u{20ac}", "\u{1f600}", "\u{a0}", "\u{2007}", "\u{660}"];
    let pair_alpha: [&str; 12] = [":", ";", "<", "=", ">", "?", "/", "+", "-", " ", "\u{663}", "\u{b2}"];
    for prefix in ["HP:", "XYZ", "\u{20ac}"] {
        for len in 1..=10usize {
            if !ctx.take() {
                continue;
            }
            ctx.state();
            let digits: Vec<String> = (0..len).map(|i| ((i * 7 + 1) % 10).to_string()).collect();
            let mut n = 0u64;
            for pos in 0..len {
                for b in 0u8..128 {
                    let mut parts = digits.clone();
                    parts[pos] = (b as char).to_string();
                    check_string(ctx, &format!("{prefix}{}", parts.concat()));
                    n += 1;
                }
                for sp in specials {
                    let mut parts = digits.clone();
                    parts[pos] = sp.to_string();
                    check_string(ctx, &format!("{prefix}{}", parts.concat()));
                    n += 1;
                }
                for pos2 in pos + 1..len {
                    for x in pair_alpha {
                        for y in pair_alpha {
                            let mut parts = digits.clone();
                            parts[pos] = x.to_string();
                            parts[pos2] = y.to_string();
                            check_string(ctx, &format!("{prefix}{}", parts.concat()));
                            n += 1;
                        }
                    }
                }
            }
            // all-zero and all-nine runs of this length, and the run made of one repeated non-digit
            for fill in ["0", "9", ":", "?", "\u{663}"] {
                check_string(ctx, &format!("{prefix}{}", fill.repeat(len)));
                n += 1;
            }
            ctx.nontrivials(n);
            ctx.sample(|| json!({"prefix": prefix, "digits": digits.concat(), "strings": n}));
        }
    }
    // ---- Space E: long inputs (an id text is usually 10 bytes - a cap, a fixed scratch buffer or an 8-bit digit
    // counter shows only far beyond that), and more digit variety near the overflow border
    ctx.space("strings/long-and-border-digit-runs", "zero-padded renderings of 1, 118, 4294967295 and 4294967296 at total lengths 43..=70000 behind HP:; 8/9/10-digit numbers d*10^k, d*10^k+-1, 429496729d, 42949672dd; for the canonical length 7: all pairs over the 17 bytes 0x2F..=0x3F at all position pairs, all triples over {/ : ?}");
    {
        let mut inputs: Vec<String> = vec![];
        for total in [43usize, 63, 64, 65, 127, 128, 129, 255, 256, 257, 1000, 4096, 70_000] {
            for tail in ["1", "118", "4294967295", "4294967296"] {
                if total > 3 + tail.len() {
                    inputs.push(format!("HP:{}{}", "0".repeat(total - 3 - tail.len()), tail));
                }
            }
            inputs.push(format!("HP:{}x", "0".repeat(total - 4)));
        }
        for k in 7..=9u32 {
            for d in 1..=9u64 {
                let v = d * 10u64.pow(k);
                for w in [v - 1, v, v + 1] {
                    inputs.push(format!("HP:{w}"));
                }
            }
        }
        for d in 0..=9 {
            inputs.push(format!("HP:429496729{d}"));
            for e in 0..=9 {
                inputs.push(format!("HP:42949672{d}{e}"));
            }
        }
        let chunk = 64;
        for part in inputs.chunks(chunk) {
            if !ctx.take() {
                continue;
            }
            ctx.state();
            for s in part {
                check_string(ctx, s);
            }
            ctx.nontrivials(part.len() as u64);
            ctx.sample(|| json!({"first_input_bytes": part[0].len(), "inputs": part.len()}));
        }
        // canonical length 7: pairs over the 0x2F..=0x3F column, triples over {/ : ?}
        let col: Vec<char> = (0x2Fu8..=0x3F).map(|b| b as char).collect();
        for p1 in 0..7usize {
            if !ctx.take() {
                continue;
            }
            ctx.state();
            let mut n = 0u64;
            for p2 in p1 + 1..7 {
                for &x in &col {
                    for &y in &col {
                        let mut t: Vec<char> = "0000118".chars().collect();
                        t[p1] = x;
                        t[p2] = y;
                        check_string(ctx, &format!("HP:{}", t.iter().collect::<String>()));
                        n += 1;
                    }
                }
                for p3 in p2 + 1..7 {
                    for &x in &['/', ':', '?'] {
                        for &y in &['/', ':', '?'] {
                            for &z in &['/', ':', '?'] {
                                let mut t: Vec<char> = "0000118".chars().collect();
                                t[p1] = x;
                                t[p2] = y;
                                t[p3] = z;
                                check_string(ctx, &format!("HP:{}", t.iter().collect::<String>()));
                                n += 1;
                            }
                        }
                    }
                }
            }
            ctx.nontrivials(n);
        }
    }
    // ---- Space F: a leading zero followed by a LETTER, and the other spellings a "smart" integer parser accepts
    // (radix prefixes 0x / 0b / 0o, digit separators, type suffixes, exponents): the digit run of Space D has its only
    // '0' at index 7 and Space B's alphabet has no letter besides H and P, so "HP:0x10" was never formed
    ctx.space("strings/zero-led-runs-and-radix-prefixes", "prefixes {HP:, XYZ, 3-byte euro sign} x three zero-led runs of every length 1..=10 (0123456789 cut to the length; 0 followed by ones; all zeros) x every single position replaced by each of the 128 ASCII bytes, and positions (1, p) replaced by (x|X|b|B|o|O, a|f|F|_) for every p >= 2; plus 95 literal spellings (0x10, 0X1F, 0b11, 0o17, 1_000, 1e3, 10u32, #10, 0x, ...; a '+' sign followed by 10 and more digits around u32::MAX and around 2^32 / 2^64 / 2^128 + small, doubled and mixed signs) behind the same prefixes; one case per (prefix, length) and one for the literals");
    for prefix in ["HP:", "XYZ", "\u{20ac}"] {
        for len in 1..=10usize {
            if !ctx.take() {
                continue;
            }
            ctx.state();
            let mut n = 0u64;
            let bases: [String; 3] = ["0123456789"[..len].to_string(), format!("0{}", "1".repeat(len - 1)), "0".repeat(len)];
            for base in &bases {
                let digits: Vec<char> = base.chars().collect();
                for pos in 0..len {
                    for b in 0u8..128 {
                        let mut t = digits.clone();
                        t[pos] = b as char;
                        check_string(ctx, &format!("{prefix}{}", t.iter().collect::<String>()));
                        n += 1;
                    }
                }
                for radix in ['x', 'X', 'b', 'B', 'o', 'O'] {
                    for pos in 2..len {
                        for c in ['a', 'f', 'F', '_'] {
                            let mut t = digits.clone();
                            t[1] = radix;
                            t[pos] = c;
                            check_string(ctx, &format!("{prefix}{}", t.iter().collect::<String>()));
                            n += 1;
                        }
                    }
                }
            }
            ctx.nontrivials(n);
            ctx.sample(|| json!({"prefix": prefix, "runs": bases, "strings": n}));
        }
    }
    if ctx.take() {
        ctx.state();
        let literals = [
            "0x10", "0X1F", "0x0", "0x", "0xff", "0xFFFFFFFF", "0x00000076", "0b11", "0B11", "0b0", "0b", "0o17", "0O17", "0o0", "0o", "017", "0017", "00x10", "x10", "h10", "10h", "1_000", "1_0", "_1", "1_", "0_0", "1e3", "1E3", "1e0", "1.0", "1.", ".1", "10u32", "10U", "10u", "10i32", "10L", "10l",
            "#10", "$10", "&h10", "0d10", "0t10", "1'000", "1,000", "1 000", "0x1_0", "0b1_1", "١٠", "0x١", "0xg", "0b2", "0o8", "0x-1", "-0x1", "+0x10", "0+1", "1+0", "0x+1", "0e0",
            // a '+' sign followed by ten and more digits (Spaces B / D / F never form that: their runs of <= 10 symbols
            // include the sign): the value behind the sign at and beyond u32::MAX, values that wrap to a small number
            // in 32 / 64 / 128 bits, leading zeros, doubled and mixed signs
            "+4294967295", "+4294967296", "+4294967297", "+4294967413", "+04294967295", "+04294967296", "+00000000004294967295", "+00000000004294967296", "+99999999999", "+0000000000001", "+0000000000118", "+18446744073709551617", "+18446744073709551734",
            "+340282366920938463463374607431768211457", "+1000000000", "+3999999999", "+4000000000", "+4294967290", "+9999999999", "++1", "+-1", "-+1", "--1", "+", "+ 1", "+1 ", "+1+", "1+", "-0", "-1", "-4294967295", "+0", "+00", "+0000000", "+0000118",
        ];
        let mut n = 0u64;
        for prefix in ["HP:", "XYZ", "\u{20ac}"] {
            for l in literals {
                check_string(ctx, &format!("{prefix}{l}"));
                n += 1;
            }
        }
        ctx.nontrivials(n);
        ctx.sample(|| json!({"literals": literals.len(), "example": "HP:0x10"}));
    }
}
