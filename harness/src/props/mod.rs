//! Property checks. Each module explores one property of /verif/properties.jsonl.

use crate::ctx::Ctx;

pub mod c20;

pub fn implemented(id: &str) -> bool {
    matches!(id, "C20")
}

pub fn run(id: &str, ctx: &mut Ctx) {
    match id {
        "C20" => c20::run(ctx),
        _ => panic!("property {id} has no check"),
    }
}
