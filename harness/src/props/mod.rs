//! Property checks. Each module explores one property of /verif/properties.jsonl.

use crate::ctx::Ctx;

pub mod c01;
pub mod c02;
pub mod c03;
pub mod c04;
pub mod c05;
pub mod c06;
pub mod c07;
pub mod c08;
pub mod c09;
pub mod c10;
pub mod c11;
pub mod c12;
pub mod c13;
pub mod c14;
pub mod c15;
pub mod c16;
pub mod c17;
pub mod c18;
pub mod c19;
pub mod common;
pub mod setroutes;
pub mod c20;

pub fn implemented(id: &str) -> bool {
    matches!(id, "C01" | "C02" | "C03" | "C04" | "C05" | "C06" | "C07" | "C08" | "C09" | "C10" | "C11" | "C12" | "C13" | "C14" | "C15" | "C16" | "C17" | "C18" | "C19" | "C20")
}

pub fn run(id: &str, ctx: &mut Ctx) {
    // what a whole-API observation is compared on (obs::scope): properties about one aspect of an ontology
    // compare that aspect; properties that claim observational identity compare everything
    {
        use crate::obs::scope::*;
        crate::obs::set_scope(match id {
            "C01" => GRAPH,
            "C02" => LINKS,
            "C03" => IC,
            "C19" => CLASSIFY,
            // the statement fixes what a sub-ontology contains, not the order in which id lists are handed out
            "C14" => ALL & !ORDER,
            _ => ALL,
        });
    }
    match id {
        "C01" => c01::run(ctx),
        "C02" => c02::run(ctx),
        "C03" => c03::run(ctx),
        "C04" => c04::run(ctx),
        "C05" => c05::run(ctx),
        "C06" => c06::run(ctx),
        "C07" => c07::run(ctx),
        "C08" => c08::run(ctx),
        "C09" => c09::run(ctx),
        "C10" => c10::run(ctx),
        "C11" => c11::run(ctx),
        "C12" => c12::run(ctx),
        "C13" => c13::run(ctx),
        "C14" => c14::run(ctx),
        "C15" => c15::run(ctx),
        "C16" => c16::run(ctx),
        "C17" => c17::run(ctx),
        "C18" => c18::run(ctx),
        "C19" => c19::run(ctx),
        "C20" => c20::run(ctx),
        _ => panic!("property {id} has no check"),
    }
}
