//! C04 - built-in term similarities follow their definitions, symmetric and finite.

use super::c01::POOL;
use super::common::AnnGroups;
use crate::ctx::{guard, Ctx};
use crate::drive;
use crate::model::{Facts, Kind, Mode, RefOnt, KINDS};
use crate::obs::Obs;
use crate::space::all_dags;
use hpo::similarity::{Builtins, CachedSimilarity, Distance, GraphIc, InformationCoefficient, Jc, Lin, Mutation, Relevance, Resnik, Similarity};
use hpo::term::InformationContentKind;
use hpo::Ontology;
use serde_json::json;
use std::collections::BTreeMap;

#[derive(Clone, Copy, Debug, PartialEq, Eq)]
pub enum Alg {
    GraphIc,
    Resnik,
    Lin,
    Jc,
    Relevance,
    InformationCoefficient,
    Distance,
    Mutation,
}

pub const ALGS: [Alg; 8] = [Alg::GraphIc, Alg::Resnik, Alg::Lin, Alg::Jc, Alg::Relevance, Alg::InformationCoefficient, Alg::Distance, Alg::Mutation];

fn ick(k: Kind) -> InformationContentKind {
    match k {
        Kind::Gene => InformationContentKind::Gene,
        Kind::Omim => InformationContentKind::Omim,
        Kind::Orpha => InformationContentKind::Orpha,
    }
}

/// Reference formulas, evaluated in f64 on the model (ICs rounded to f32 first, as the library stores them).
pub fn reference(r: &RefOnt, alg: Alg, kind: Kind, a: u32, b: u32) -> f64 {
    reference_on(r, &|t: u32| r.ic(t, kind) as f64, alg, kind, a, b)
}

/// The same formulas on the model's ancestor sets, distances and record sets, with the information contents
/// supplied by the caller (how exact an information content is, is C03's question - see `ics`).
pub fn reference_on(r: &RefOnt, ic: &dyn Fn(u32) -> f64, alg: Alg, kind: Kind, a: u32, b: u32) -> f64 {
    reference_full(r, ic, alg, kind, a, b).0
}

/// (reference value, Lin of the pair on the same information contents) - the second one scales the absolute
/// slack of Relevance / InformationCoefficient (see `tolerance`)
fn reference_full(r: &RefOnt, ic: &dyn Fn(u32) -> f64, alg: Alg, kind: Kind, a: u32, b: u32) -> (f64, f64) {
    let common_incl: Vec<u32> = r.anc_incl(a).intersection(&r.anc_incl(b)).copied().collect();
    let resnik = common_incl.iter().map(|t| ic(*t)).fold(0.0f64, f64::max);
    let lin = {
        let s = ic(a) + ic(b);
        if s == 0.0 {
            0.0
        } else {
            2.0 * resnik / s
        }
    };
    let value = match alg {
        Alg::Resnik => resnik,
        Alg::Lin => lin,
        Alg::Jc => {
            if a == b {
                1.0
            } else if ic(a) == 0.0 || ic(b) == 0.0 {
                0.0
            } else {
                1.0 / (ic(a) + ic(b) - 2.0 * resnik + 1.0)
            }
        }
        Alg::Relevance => lin * (1.0 - (-resnik).exp()),
        Alg::InformationCoefficient => lin * (1.0 - 1.0 / (1.0 + resnik)),
        Alg::GraphIc => {
            if a == b {
                return (1.0, lin);
            }
            let union: std::collections::BTreeSet<u32> = r.terms[&a].ancestors.union(&r.terms[&b].ancestors).copied().collect();
            let u: f64 = union.iter().map(|t| ic(*t)).sum();
            if u == 0.0 {
                0.0
            } else {
                common_incl.iter().map(|t| ic(*t)).sum::<f64>() / u
            }
        }
        Alg::Distance => match r.distance(a, b) {
            Some(d) => 1.0 / (d as f64 + 1.0),
            None => 0.0,
        },
        Alg::Mutation => {
            if a == b {
                return (1.0, lin);
            }
            let (x, y) = (&r.terms[&a].recs[kind.idx()], &r.terms[&b].recs[kind.idx()]);
            let u = x.union(y).count();
            if u == 0 {
                0.0
            } else {
                x.intersection(y).count() as f64 / u as f64
            }
        }
    };
    (value, lin)
}

/// relative part of every value comparison of this module
const RTOL: f64 = 1e-5;
/// Resnik is the maximum of stored f32 information contents: nothing is computed, 4 ulp
const RTOL_RESNIK: f64 = 4.0 * 1.2e-7;
/// `1 - exp(-r)` and `1 - 1/(1+r)` evaluated in f32 lose up to two ulp of 1.0 ABSOLUTELY before they are
/// multiplied by Lin: the only absolute slack an f32 evaluation of a built-in needs, and it scales with Lin
const ONE_MINUS_SLACK: f64 = 2.4e-7;

/// How far an f32 evaluation of the documented formula on the given f32 information contents may be from the
/// f64 reference `w`: relative only (quotients and sums of non-negative f32 are relatively stable at every
/// magnitude, so a score of 1e-5 is held to the same 5 digits as one of 0.5), plus `lin * 2.4e-7` for the two
/// algorithms with a `1 - x` factor. A reference of exactly 0 is a structural zero (no common ancestor with
/// information content, no path, no common record: 0/x or 0*x in every evaluation) and tolerates nothing.
fn tolerance(alg: Alg, w: f64, lin: f64) -> f64 {
    match alg {
        Alg::Resnik => RTOL_RESNIK * w.abs(),
        Alg::Relevance | Alg::InformationCoefficient => RTOL * w.abs() + ONE_MINUS_SLACK * lin.abs(),
        _ => RTOL * w.abs(),
    }
}

fn builtin(alg: Alg, k: InformationContentKind) -> Builtins {
    match alg {
        Alg::GraphIc => Builtins::GraphIc(k),
        Alg::Resnik => Builtins::Resnik(k),
        Alg::Lin => Builtins::Lin(k),
        Alg::Jc => Builtins::Jc(k),
        Alg::Relevance => Builtins::Relevance(k),
        Alg::InformationCoefficient => Builtins::InformationCoefficient(k),
        Alg::Distance => Builtins::Distance(k),
        Alg::Mutation => Builtins::Mutation(k),
    }
}

fn scores(alg: Alg, k: InformationContentKind, a: &hpo::HpoTerm, b: &hpo::HpoTerm) -> [f32; 3] {
    let direct: f32 = match alg {
        Alg::GraphIc => GraphIc::new(k).calculate(a, b),
        Alg::Resnik => Resnik::new(k).calculate(a, b),
        Alg::Lin => Lin::new(k).calculate(a, b),
        Alg::Jc => Jc::new(k).calculate(a, b),
        Alg::Relevance => Relevance::new(k).calculate(a, b),
        Alg::InformationCoefficient => InformationCoefficient::new(k).calculate(a, b),
        Alg::Distance => Distance::new().calculate(a, b),
        Alg::Mutation => Mutation::new(k).calculate(a, b),
    };
    let bi = builtin(alg, k);
    [a.similarity_score(b, &bi), bi.calculate(a, b), direct]
}

/// two f32 results of the same quantity: equal up to rounding - relative 1e-5 of the larger one, no absolute
/// part but `extra` (the `1 - x` slack of Relevance / InformationCoefficient, 0 for the others); NaN only
/// matches NaN, an infinite value only itself
fn same(x: f32, y: f32, extra: f64) -> bool {
    (x.is_nan() && y.is_nan()) || x == y || (x.is_finite() && y.is_finite() && (x as f64 - y as f64).abs() <= RTOL * (x.abs().max(y.abs()) as f64) + extra)
}

fn one_minus(alg: Alg) -> bool {
    matches!(alg, Alg::Relevance | Alg::InformationCoefficient)
}

/// The information contents the formulas are evaluated on: per kind, what the library reports for the term
/// (`information_content().get_kind(kind)`) as long as that IS the term's information content by C03's
/// tolerance (`obs::close32` against -ln(n/N) of the model), the model's value otherwise. The statement says
/// "evaluated on the two terms' information contents"; how exactly those are computed is C03's business, and
/// most scores are ratios of them: an IC error C03 accepts (1e-6 on an IC of 1e-5) must not become a 10 %
/// score error here.
fn ics(ont: &Ontology, r: &RefOnt) -> [BTreeMap<u32, f64>; 3] {
    let mut out: [BTreeMap<u32, f64>; 3] = Default::default();
    for kind in KINDS {
        for &t in r.terms.keys() {
            let model = r.ic(t, kind);
            let lib = ont.hpo(t).map(|x| x.information_content().get_kind(&ick(kind)));
            let v = match lib {
                Some(x) if crate::obs::close32(x, model) => x,
                _ => model,
            };
            out[kind.idx()].insert(t, v as f64);
        }
    }
    out
}

type V = Option<(String, String, String)>;

pub fn check_ontology(ont: &Ontology, r: &RefOnt, algs: &[Alg], counters: &mut (u64, u64)) -> V {
    check_ontology_strided(ont, r, algs, counters, 1)
}

pub fn check_ontology_strided(ont: &Ontology, r: &RefOnt, algs: &[Alg], counters: &mut (u64, u64), stride: usize) -> V {
    let ids: Vec<u32> = r.terms.keys().copied().collect();
    let firsts: Vec<u32> = ids.iter().copied().step_by(stride).collect();
    check_ontology_pairs(ont, r, algs, counters, &firsts, &ids)
}

pub fn check_ontology_pairs(ont: &Ontology, r: &RefOnt, algs: &[Alg], counters: &mut (u64, u64), firsts: &[u32], seconds: &[u32]) -> V {
    let ic = ics(ont, r);
    // a fourth entry point: the wrapper the crate recommends for batch runs, one per (algorithm, kind), alive
    // over all pairs of this ontology and asked twice per pair (computed, then served from its cache); to keep
    // the hashing cheap each pair goes through the caches of one kind only (the kinds take turns)
    let cached: Vec<Vec<CachedSimilarity<Builtins>>> = algs.iter().map(|alg| KINDS.iter().map(|k| CachedSimilarity::new(builtin(*alg, ick(*k)))).collect()).collect();
    for (ia, &a) in firsts.iter().enumerate() {
        for (ib, &b) in seconds.iter().enumerate() {
            let (ta, tb) = (ont.hpo(a).unwrap(), ont.hpo(b).unwrap());
            for (ai, &alg) in algs.iter().enumerate() {
                for kind in KINDS {
                    counters.0 += 1;
                    let s = scores(alg, ick(kind), &ta, &tb);
                    let site = format!("{alg:?}({})", kind.name());
                    let icf = |t: u32| ic[kind.idx()][&t];
                    let (want, lin) = reference_full(r, &icf, alg, kind, a, b);
                    if want != 0.0 && want != 1.0 {
                        counters.1 += 1;
                    }
                    // both sides of a comparison of two library values may carry the `1 - x` loss
                    let extra = if one_minus(alg) { 2.0 * ONE_MINUS_SLACK * lin } else { 0.0 };
                    // the three entry points run the same algorithm: equal up to rounding (NaN-ness must agree too)
                    if !same(s[0], s[1], extra) || !same(s[1], s[2], extra) {
                        return Some((site, "similarity_score, Builtins and the concrete struct disagree".into(), format!("({a},{b}): {s:?}")));
                    }
                    let mut vals: [(&str, f32); 5] = [("HpoTerm::similarity_score", s[0]), ("Builtins::calculate", s[1]), ("the concrete struct", s[2]), ("", 0.0), ("", 0.0)];
                    let mut nvals = 3;
                    if (ia + ib) % 3 == kind.idx() {
                        let c = &cached[ai][kind.idx()];
                        let (c1, c2) = (c.calculate(&ta, &tb), c.calculate(&ta, &tb));
                        if !same(c1, s[1], extra) || !same(c2, s[1], extra) {
                            return Some((site, "CachedSimilarity returns another score than the similarity it wraps".into(), format!("({a},{b}): first call {c1}, second call {c2}, Builtins {}", s[1])));
                        }
                        vals[3] = ("CachedSimilarity, first call", c1);
                        vals[4] = ("CachedSimilarity, second call", c2);
                        nvals = 5;
                    }
                    // "does not depend on argument order": for an f32 result that is up to rounding (the two orders
                    // may add the same information contents in another order)
                    let v = s[0];
                    let back = scores(alg, ick(kind), &tb, &ta)[0];
                    if !same(v, back, extra) {
                        return Some((site, "score depends on argument order".into(), format!("({a},{b}) = {v}, ({b},{a}) = {back}")));
                    }
                    // Jiang-Conrath of two distinct terms of which exactly one has information content 0: the library
                    // answers 0, the cited formula 1/(ic(a)+ic(b)-2*resnik+1); this is no zero-denominator guard and
                    // no documented special case, so both are accepted (see assumptions)
                    let alt = if alg == Alg::Jc && a != b && (icf(a) == 0.0) != (icf(b) == 0.0) { Some(1.0 / (icf(a) + icf(b) - 2.0 * reference_on(r, &icf, Alg::Resnik, kind, a, b) + 1.0)) } else { None };
                    // the strict sentences and the formula hold for the value of EVERY entry point
                    for &(entry, v) in &vals[..nvals] {
                        let via = if entry == vals[0].0 { String::new() } else { format!(" [{entry}]") };
                        if v.is_nan() {
                            return Some((site, "score is NaN".into(), format!("({a},{b}){via}")));
                        }
                        if !v.is_finite() || v < 0.0 {
                            return Some((site, "score is negative or not finite".into(), format!("({a},{b}): {v}{via}")));
                        }
                        if a == b && matches!(alg, Alg::GraphIc | Alg::Jc | Alg::Distance | Alg::Mutation) && v != 1.0 {
                            return Some((site, "self-similarity is not 1".into(), format!("({a},{a}) = {v}{via}")));
                        }
                        let near = |w: f64, tol: f64| if w == 0.0 { v == 0.0 } else { (v as f64 - w).abs() <= tol };
                        let mut ok = near(want, tolerance(alg, want, lin)) || alt.is_some_and(|x| near(x, tolerance(alg, x, lin)));
                        if !ok && alg == Alg::GraphIc && want != 0.0 {
                            // two f32 sums of n non-negative summands: each within n/2 ulp whatever the order
                            let n = r.anc_incl(a).intersection(&r.anc_incl(b)).count() + r.terms[&a].ancestors.union(&r.terms[&b].ancestors).count() + 2;
                            ok = (v as f64 - want).abs() <= (n as f64 * 1.2e-7).max(RTOL) * want.abs();
                        }
                        if !ok {
                            return Some((site, "score differs from the documented formula".into(), format!("({a},{b}): observed {v} expected {want}{}{via}", alt.map_or(String::new(), |x| format!(" (or {x})")))));
                        }
                    }
                }
            }
        }
    }
    None
}

fn calibrate(ctx: &mut Ctx) {
    ctx.space("calibration/example.hpo", "reference formulas evaluated on the facts of tests/example.hpo must reproduce the literal pinned in the crate's documentation (GraphIc(Omim)(HP:0012638, HP:0100547) = 0.112043366) and agree with the library on all 26x26 pairs");
    if !ctx.take() {
        return;
    }
    ctx.state();
    ctx.exec();
    ctx.validated();
    ctx.nontrivial();
    ctx.transitions(1);
    let res = guard(|| Ontology::from_binary("/repo/tests/example.hpo"));
    let Ok(Ok(ont)) = res else {
        ctx.violation("Ontology::from_binary", "cannot load tests/example.hpo", json!({}));
        return;
    };
    let Ok(obs) = Obs::of(&ont) else {
        ctx.violation("read API walk", "cannot observe tests/example.hpo", json!({}));
        return;
    };
    // facts as observed (direct parents and direct record terms)
    let mut f = Facts::default();
    for t in &obs.terms {
        f.terms.push(crate::model::TermFact { id: t.id, name: t.name.clone(), obsolete: t.obsolete, replacement: t.replacement });
        for p in &t.parents {
            f.edges.push((t.id, *p));
        }
    }
    for (k, kind) in KINDS.iter().enumerate() {
        for rec in &obs.recs[k] {
            if rec.terms.is_empty() {
                f.anns.push(Facts::ann(*kind, rec.id, &rec.name, None));
            }
            for t in &rec.terms {
                f.anns.push(Facts::ann(*kind, rec.id, &rec.name, Some(*t)));
            }
        }
    }
    let r = RefOnt::derive(&f);
    let lit = reference(&r, Alg::GraphIc, Kind::Omim, 12638, 100547);
    if (lit - 0.112043366).abs() > 2e-6 {
        // the harness' transcription of the formula is wrong: a machinery problem, not a verdict
        panic!("calibration failed: reference GraphIc = {lit}, documentation pins 0.112043366");
    }
    let mut counters = (0u64, 0u64);
    match guard(|| check_ontology(&ont, &r, &ALGS, &mut counters)) {
        Ok(None) => {}
        Ok(Some((site, sig, det))) => ctx.violation(&site, &format!("[example.hpo] {sig}"), json!({"ontology": "tests/example.hpo", "difference": det})),
        Err(p) => ctx.violation("Similarity::calculate", "[example.hpo] panics", json!({"observed": p})),
    }
    ctx.execs(counters.0);
    ctx.validateds(counters.0);
    ctx.sample(|| json!({"ontology": "/repo/tests/example.hpo", "pairs": 26 * 26, "pinned": "GraphIc(Omim)(HP:0012638,HP:0100547)=0.112043366", "reference": lit}));
}

pub fn run(ctx: &mut Ctx) {
    ctx.rule = "case = (labelled DAG, annotation pattern) with all ordered term pairs x 8 algorithms x 3 kinds x 4 entry points (similarity_score, Builtins, concrete struct, CachedSimilarity asked twice); patterns: every subset S (g1<-S, g2<-~S, omim<-rot1 S, orpha<-rot2 S, bare records) and no annotations at all; distinct by construction; non-trivial counts score evaluations whose reference value is neither 0 nor 1".into();
    ctx.assumptions = vec![
        "reference formulas are transcribed from the struct documentation / cited papers and calibrated on the GraphIc literal pinned in the crate's documentation".into(),
        "the formulas are evaluated on the information contents the library reports for the terms (as long as C03's tolerance accepts them as such, the model's -ln(n/N) otherwise): their exactness is C03's question".into(),
        "values compared RELATIVELY (rtol 1e-5; Resnik 4 ulp; GraphIc on long ancestor lists 1.2e-7 per summand) at every magnitude - a score of 1e-5 is held to the same digits as one of 0.5; the only absolute slack is Lin * 2.4e-7 for Relevance / InformationCoefficient (their factor 1 - x loses two ulp of 1.0 in f32); a reference of exactly 0 (structural zero) demands exactly 0; the entry points among each other and the two argument orders (symmetry) within the same relative band; NaN, sign, finiteness, self-similarity and the formula are checked on the value of every entry point (similarity_score, Builtins, struct, CachedSimilarity twice)".into(),
        "Jiang-Conrath of two distinct terms of which exactly one has information content 0: 0 (what the library answers; not documented) and the value of the cited formula are both accepted".into(),
        "Builtins::new: only the 13 lower-case names, \"does-not-exist\" and \"\" have a fixed answer; other spellings are refuse-or-consistent".into(),
        "CachedSimilarity<Builtins> is driven as a fourth entry point (one cache per algorithm, kind and ontology; every pair goes through the caches of one kind, the kinds taking turns)".into(),
    ];
    calibrate(ctx);
    let thorough = ctx.tier.thorough();
    let max_n = if thorough { 5 } else { 4 };
    for n in 1..=max_n {
        let dags = all_dags(n);
        ctx.space(&format!("builder/D{n}/patterns-x-pairs"), &format!("{} labelled DAGs x {} annotation patterns x {} ordered pairs x 8 algorithms x 3 kinds", dags.len(), (1 << n) + 1, n * n));
        for d in &dags {
            for s in 0..=(1u32 << n) {
                if !ctx.take() {
                    continue;
                }
                ctx.state();
                let base = Facts::from_dag(d, &POOL);
                let ids: Vec<u32> = base.terms.iter().map(|t| t.id).collect();
                let anns = if s == (1 << n) { vec![] } else { AnnGroups::new(s, &ids).interleaved() };
                let f = Facts { anns, ..base };
                let r = RefOnt::derive(&f);
                ctx.transitions(f.n_steps() + (n * n * 24) as u64);
                let Ok(ont) = drive::build(&f, Mode::Minimal) else {
                    ctx.exec();
                    ctx.violation("Builder", "[builder] construction fails on valid facts", json!({"case": f.to_json()}));
                    continue;
                };
                let mut counters = (0u64, 0u64);
                match guard(|| check_ontology(&ont, &r, &ALGS, &mut counters)) {
                    Ok(None) => {}
                    Ok(Some((site, sig, det))) => ctx.violation(&site, &sig, json!({"facts": f.to_json(), "dag": d.describe(), "difference": det, "rust": f.to_rust(false)})),
                    Err(p) => ctx.violation("Similarity::calculate", "panics", json!({"facts": f.to_json(), "observed": p})),
                }
                ctx.execs(counters.0);
                ctx.validateds(counters.0);
                ctx.nontrivials(counters.1);
                ctx.outcome(crate::ctx::fnv_str(&format!("{}{}", d.describe(), s)) % 8192);
                ctx.sample(|| json!({"dag": d.describe(), "ids": ids, "pattern": if s == (1 << n) { "no annotations".to_string() } else { format!("S={:?}", crate::space::bits(s, n)) }}));
            }
        }
    }
    // ---- structured large graphs: ancestor sets beyond 30 ids, long chains, many routes
    {
        let family = crate::props::common::large_family();
        ctx.space("large-structured/patterns-x-pairs", &format!("{} large shapes with genes on the last term / every 7th term, OMIM on the middle and the top term, ORPHA on the last two terms; all ordered pairs x 8 algorithms x 3 kinds (shapes with > 70 terms: every 3rd term as first argument)", family.len()));
        for (base, what) in &family {
            if !ctx.take() {
                continue;
            }
            ctx.state();
            let ids: Vec<u32> = base.terms.iter().map(|t| t.id).collect();
            let n = ids.len();
            let mut anns = vec![Facts::ann(Kind::Gene, 11, "GENE1", Some(ids[n - 1])), Facts::ann(Kind::Gene, 33, "GENE3", None)];
            for i in (0..n).step_by(7) {
                anns.push(Facts::ann(Kind::Gene, 22, "GENE2", Some(ids[i])));
            }
            anns.push(Facts::ann(Kind::Omim, 600_001, "Disease one", Some(ids[n / 2])));
            anns.push(Facts::ann(Kind::Omim, 600_003, "Disease three", Some(ids[0])));
            anns.push(Facts::ann(Kind::Omim, 600_002, "Disease two, bare", None));
            anns.push(Facts::ann(Kind::Orpha, 77, "Orpha one", Some(ids[n - 1])));
            anns.push(Facts::ann(Kind::Orpha, 78, "Orpha two", Some(ids[n - 2])));
            anns.push(Facts::ann(Kind::Orpha, 79, "Orpha three, bare", None));
            let f = Facts { anns, ..base.clone() };
            // for the biggest shapes restrict the model to keep the case short: check on a sub-model of first arguments
            let r = RefOnt::derive(&f);
            ctx.transitions(f.n_steps() + (n * n * 24) as u64);
            let Ok(ont) = drive::build(&f, Mode::Minimal) else {
                ctx.exec();
                ctx.violation("Builder", "[builder] construction fails on valid facts", json!({"shape": what}));
                continue;
            };
            let mut counters = (0u64, 0u64);
            let stride = if n > 70 { 3 } else { 1 };
            let sel: Vec<u32> = crate::props::common::selected_positions(n).into_iter().map(|k| ids[k]).collect();
            match guard(|| if n > 120 { check_ontology_pairs(&ont, &r, &ALGS, &mut counters, &sel, &sel) } else { check_ontology_strided(&ont, &r, &ALGS, &mut counters, stride) }) {
                Ok(None) => {}
                Ok(Some((site, sig, det))) => ctx.violation(&site, &format!("[large shape] {sig}"), json!({"shape": what, "n_terms": n, "difference": det})),
                Err(p) => ctx.violation("Similarity::calculate", "[large shape] panics", json!({"shape": what, "observed": p})),
            }
            ctx.execs(counters.0);
            ctx.validateds(counters.0);
            ctx.nontrivials(counters.1);
            ctx.sample(|| json!({"shape": what, "n_terms": n}));
        }
    }
    // ---- decoded ontologies whose terms are flagged obsolete and / or replaced while still connected and
    // annotated (the Builder cannot set the flags): the formulas do not involve the flags
    for n in 2..=4usize {
        let dags = all_dags(n);
        ctx.space(&format!("binary/D{n}/flagged-terms-x-pairs"), &format!("{} labelled DAGs over {:?} decoded from a v3 file x (each single term flagged obsolete and replaced by the next one | all terms flagged) x one annotation pattern x {} ordered pairs x 8 algorithms x 3 kinds", dags.len(), &super::c01::POOL_ROOTS[..n], n * n));
        for d in &dags {
            if !ctx.take() {
                continue;
            }
            ctx.state();
            let mut base = Facts::from_dag(d, &super::c01::POOL_ROOTS);
            base.version = (2024, 2, 29);
            let ids: Vec<u32> = base.terms.iter().map(|t| t.id).collect();
            base.anns = AnnGroups::new(0b0110 & ((1 << n) - 1), &ids).interleaved();
            for k in 0..=n {
                let mut f = base.clone();
                for i in 0..n {
                    if i == k || k == n {
                        f.terms[i].obsolete = true;
                        f.terms[i].replacement = Some(ids[(i + 1) % n]);
                    }
                }
                let r = RefOnt::derive(&f);
                ctx.transitions(f.n_steps() + (n * n * 24) as u64);
                let bytes = crate::encode::encode(&f, &crate::encode::EncOpts::v(3));
                let Ok(Ok(ont)) = drive::from_bytes(&bytes) else {
                    ctx.exec();
                    ctx.violation("Ontology::from_bytes", "[binary v3] cannot decode a file laid out as documented", json!({"case": f.to_json()}));
                    continue;
                };
                let mut counters = (0u64, 0u64);
                match guard(|| check_ontology(&ont, &r, &ALGS, &mut counters)) {
                    Ok(None) => {}
                    Ok(Some((site, sig, det))) => ctx.violation(&site, &format!("[flagged terms] {sig}"), json!({"facts": f.to_json(), "dag": d.describe(), "flagged": if k == n { "all terms".to_string() } else { format!("term {}", ids[k]) }, "difference": det})),
                    Err(p) => ctx.violation("Similarity::calculate", "[flagged terms] panics", json!({"facts": f.to_json(), "observed": p})),
                }
                ctx.execs(counters.0);
                ctx.validateds(counters.0);
                ctx.nontrivials(counters.1);
            }
            ctx.sample(|| json!({"dag": d.describe(), "ids": ids, "flag patterns": n + 1}));
        }
    }
    if !thorough {
        // distance-shaped algorithm on all 5-node graphs (its interesting shapes need 5 terms)
        let n = 5;
        let dags = all_dags(n);
        ctx.space("builder/D5/distance+graphic", &format!("{} labelled DAGs x 25 ordered pairs x Distance, GraphIc, Resnik with one annotation pattern", dags.len()));
        for d in &dags {
            if !ctx.take() {
                continue;
            }
            ctx.state();
            let base = Facts::from_dag(d, &POOL);
            let ids: Vec<u32> = base.terms.iter().map(|t| t.id).collect();
            let f = Facts { anns: AnnGroups::new(0b00110, &ids).interleaved(), ..base };
            let r = RefOnt::derive(&f);
            ctx.transitions(f.n_steps() + 75);
            let Ok(ont) = drive::build(&f, Mode::Minimal) else {
                ctx.exec();
                ctx.violation("Builder", "[builder] construction fails on valid facts", json!({"case": f.to_json()}));
                continue;
            };
            let mut counters = (0u64, 0u64);
            match guard(|| check_ontology(&ont, &r, &[Alg::Distance, Alg::GraphIc, Alg::Resnik], &mut counters)) {
                Ok(None) => {}
                Ok(Some((site, sig, det))) => ctx.violation(&site, &sig, json!({"facts": f.to_json(), "dag": d.describe(), "difference": det, "rust": f.to_rust(false)})),
                Err(p) => ctx.violation("Similarity::calculate", "panics", json!({"facts": f.to_json(), "observed": p})),
            }
            ctx.execs(counters.0);
            ctx.validateds(counters.0);
            ctx.nontrivials(counters.1);
            ctx.sample(|| json!({"dag": d.describe(), "ids": ids}));
        }
    }
    // ---- the name dispatch: each of the 13 lower-case names gives the variant of that name for the requested
    // kind (scores equal to the literal variant on a 4-term ontology) and "does-not-exist" / "" are refused. The
    // property does not speak about any other spelling, so for those the oracle is refuse-or-consistent: the
    // UPPER and mIxEd spellings of a name are refused or select what the lower-case name selects; near-names are
    // refused or score like one of the eight built-ins of the requested kind on all 16 pairs
    {
        ctx.space("names/Builtins::new", "13 lower-case names and aliases x 3 kinds: Builtins::new(name, kind) scores like the literal variant on all 16 pairs of a 4-term ontology; their UPPER and Mixed spellings: refused, or the same variant; \"does-not-exist\" and \"\" are refused; 7 near-names (blank, trailing blank, prefix, misspelling, digit appended): refused, or one of the 8 built-ins of the requested kind");
        if ctx.take() {
            ctx.state();
            ctx.nontrivial();
            let names: [(&str, Alg); 13] = [("graphic", Alg::GraphIc), ("resnik", Alg::Resnik), ("distance", Alg::Distance), ("dist", Alg::Distance), ("informationcoefficient", Alg::InformationCoefficient), ("ic", Alg::InformationCoefficient), ("jc", Alg::Jc), ("jc2", Alg::Jc), ("lin", Alg::Lin), ("relevance", Alg::Relevance), ("rel", Alg::Relevance), ("mutation", Alg::Mutation), ("mut", Alg::Mutation)];
            // the ontology on which names are told apart: the first 4-term DAG (from number 400 on) with a record
            // layout per kind on which the reference formulas give 8 x 3 pairwise different score tables (Distance: one
            // table for all kinds) - on a sparse graph several built-ins coincide and a wrong variant would pass
            let dags = all_dags(4);
            let mk = |di: usize| -> (Facts, Vec<u32>) {
                let base = Facts::from_dag(&dags[di], &POOL);
                let ids: Vec<u32> = base.terms.iter().map(|t| t.id).collect();
                // per kind another layout of records over the terms (node positions), so that no two kinds give the
                // same table for any algorithm: genes: one record per term and one per pair of neighbours; OMIM: two
                // single records and pairs two apart; ORPHA: two records on the first term and runs of three
                let layouts: [&[&[usize]]; 3] = [&[&[0], &[1], &[2], &[3], &[0, 1], &[1, 2], &[2, 3], &[3, 0]], &[&[0], &[1], &[0, 2], &[1, 3], &[2, 0]], &[&[0], &[0], &[0, 1, 2], &[1, 2, 3], &[3]]];
                let mut anns = vec![];
                for (ki, kind) in KINDS.iter().enumerate() {
                    for (ri, terms) in layouts[ki].iter().enumerate() {
                        for t in terms.iter() {
                            anns.push(Facts::ann(*kind, 100 + ri as u32, &format!("R{ri}"), Some(ids[*t])));
                        }
                    }
                    for b in 0..=ki {
                        anns.push(Facts::ann(*kind, 900 + b as u32, "bare", None));
                    }
                }
                (Facts { anns, ..base }, ids)
            };
            let distinct = |f: &Facts, ids: &[u32]| -> bool {
                let r = RefOnt::derive(f);
                let mut tables: Vec<Vec<f64>> = vec![];
                for alg in ALGS {
                    for kind in KINDS {
                        if alg == Alg::Distance && kind != Kind::Gene {
                            continue;
                        }
                        tables.push(ids.iter().flat_map(|a| ids.iter().map(|b| reference(&r, alg, kind, *a, *b)).collect::<Vec<f64>>()).collect());
                    }
                }
                (0..tables.len()).all(|i| (0..i).all(|j| tables[i].iter().zip(&tables[j]).any(|(x, y)| (x - y).abs() > 1e-3)))
            };
            let chosen = (400..dags.len()).chain(0..400).find(|di| {
                let (f, ids) = mk(*di);
                distinct(&f, &ids)
            });
            if chosen.is_none() {
                ctx.note("names/Builtins::new: no 4-term graph separates all built-ins; graph 400 is used");
            }
            let (f, ids) = mk(chosen.unwrap_or(400));
            match drive::build(&f, Mode::Minimal) {
                Err(e) => ctx.violation("Builder", "[builder] construction fails on valid facts", json!({"case": f.to_json(), "observed": e})),
                Ok(ont) => {
                    // first pair on which `b` scores differently from the literal variant of `alg`
                    let differs = |b: &Builtins, alg: Alg, k: InformationContentKind| -> Option<String> {
                        for &x in &ids {
                            for &y in &ids {
                                let (tx, ty) = (ont.hpo(x).unwrap(), ont.hpo(y).unwrap());
                                let got = b.calculate(&tx, &ty);
                                let want = scores(alg, k, &tx, &ty)[2];
                                if !same(got, want, if one_minus(alg) { 2.0 * ONE_MINUS_SLACK } else { 0.0 }) {
                                    return Some(format!("on ({x},{y}) = {got}, {alg:?} gives {want}"));
                                }
                            }
                        }
                        None
                    };
                    let refused_spellings = std::cell::Cell::new(0u64);
                    let res = guard(|| -> V {
                        for (name, alg) in names {
                            let mixed: String = name.chars().enumerate().map(|(i, c)| if i % 2 == 0 { c.to_ascii_uppercase() } else { c }).collect();
                            for (si, spelled) in [name.to_string(), name.to_uppercase(), mixed].into_iter().enumerate() {
                                for kind in KINDS {
                                    let k = ick(kind);
                                    let b = match Builtins::new(&spelled, k) {
                                        Ok(b) => b,
                                        Err(_) if si == 0 => return Some(("Builtins::new".into(), "refuses a documented name".into(), format!("{spelled:?}"))),
                                        // another spelling than the lower-case one may be refused
                                        Err(_) => {
                                            refused_spellings.set(refused_spellings.get() + 1);
                                            continue;
                                        }
                                    };
                                    if let Some(d) = differs(&b, alg, k) {
                                        return Some(("Builtins::new".into(), "the name selects another algorithm or kind".into(), format!("Builtins::new({spelled:?}, {}) {d}", kind.name())));
                                    }
                                }
                            }
                        }
                        for bad in ["", "does-not-exist"] {
                            if Builtins::new(bad, InformationContentKind::Omim).is_ok() {
                                return Some(("Builtins::new".into(), "accepts a name that is not documented".into(), format!("{bad:?}")));
                            }
                        }
                        for near in [" ", "graph", "graphic ", "resnick", "jc3", "ic2", "distance1"] {
                            for kind in KINDS {
                                let k = ick(kind);
                                if let Ok(b) = Builtins::new(near, k) {
                                    if ALGS.iter().all(|alg| differs(&b, *alg, k).is_some()) {
                                        return Some(("Builtins::new".into(), "an accepted name scores like none of the built-in similarities of the requested kind".into(), format!("Builtins::new({near:?}, {}) = {b:?}", kind.name())));
                                    }
                                }
                            }
                        }
                        None
                    });
                    ctx.bump("refused: Builtins::new (UPPER / mIxEd spelling of a documented name, kind)", refused_spellings.get());
                    ctx.execs(13 * 3 * 3 * 16);
                    ctx.validateds(13 * 3 * 3 * 16);
                    match res {
                        Ok(None) => {}
                        Ok(Some((site, sig, det))) => ctx.violation(&site, &sig, json!({"facts": f.to_json(), "difference": det})),
                        Err(p) => ctx.violation("Builtins::new", "panics", json!({"observed": p})),
                    }
                }
            }
            ctx.sample(|| json!({"names": names.iter().map(|n| n.0).collect::<Vec<_>>(), "graph": chosen.map(|di| dags[di].describe())}));
        }
    }
    // ---- properly overlapping record sets and as many information-content levels as terms: record i on node i,
    // record n+i on nodes i and i+1 (per kind, with different offsets), one bare record
    for n in 2..=4usize {
        let dags = all_dags(n);
        ctx.space(&format!("builder/D{n}/overlapping-records-x-pairs"), &format!("{} labelled DAGs x (record i on term i, record n+i on terms i and i+1 mod n; OMIM shifted by one, ORPHA by two) x {} ordered pairs x 8 algorithms x 3 kinds", dags.len(), n * n));
        for d in &dags {
            if !ctx.take() {
                continue;
            }
            ctx.state();
            let base = Facts::from_dag(d, &POOL);
            let ids: Vec<u32> = base.terms.iter().map(|t| t.id).collect();
            let mut anns = vec![];
            for (ki, kind) in KINDS.iter().enumerate() {
                for i in 0..n {
                    anns.push(Facts::ann(*kind, 100 + i as u32, &format!("S{i}"), Some(ids[(i + ki) % n])));
                    anns.push(Facts::ann(*kind, 200 + i as u32, &format!("P{i}"), Some(ids[(i + ki) % n])));
                    anns.push(Facts::ann(*kind, 200 + i as u32, &format!("P{i}"), Some(ids[(i + ki + 1) % n])));
                }
                anns.push(Facts::ann(*kind, 999, "bare", None));
            }
            let f = Facts { anns, ..base };
            let r = RefOnt::derive(&f);
            ctx.transitions(f.n_steps() + (n * n * 24) as u64);
            let Ok(ont) = drive::build(&f, Mode::Minimal) else {
                ctx.exec();
                ctx.violation("Builder", "[builder] construction fails on valid facts", json!({"case": f.to_json()}));
                continue;
            };
            let mut counters = (0u64, 0u64);
            match guard(|| check_ontology(&ont, &r, &ALGS, &mut counters)) {
                Ok(None) => {}
                Ok(Some((site, sig, det))) => ctx.violation(&site, &format!("[overlapping records] {sig}"), json!({"facts": f.to_json(), "dag": d.describe(), "difference": det})),
                Err(p) => ctx.violation("Similarity::calculate", "[overlapping records] panics", json!({"facts": f.to_json(), "observed": p})),
            }
            ctx.execs(counters.0);
            ctx.validateds(counters.0);
            ctx.nontrivials(counters.1);
            ctx.sample(|| json!({"dag": d.describe(), "ids": ids}));
        }
    }
    // ---- six terms (Distance, GraphIc, Resnik): all 32 768 DAGs whose links respect the node order
    if !thorough {
        let dags = crate::space::topo_dags(6);
        ctx.space("builder/T6/distance+graphic", &format!("{} DAGs on 6 terms whose links respect the node order (ids ascending | descending with depth) x 36 ordered pairs x Distance, GraphIc, Resnik", dags.len()));
        for (di, d) in dags.iter().enumerate() {
            if !ctx.take() {
                continue;
            }
            ctx.state();
            let pool: [u32; 6] = if di % 2 == 0 { [1, 7, 118, 4000, 77_777, 9_999_999] } else { [9_999_999, 77_777, 4000, 118, 7, 1] };
            let base = Facts::from_dag(d, &pool);
            let ids: Vec<u32> = base.terms.iter().map(|t| t.id).collect();
            let f = Facts { anns: AnnGroups::new(0b001100, &ids).interleaved(), ..base };
            let r = RefOnt::derive(&f);
            ctx.transitions(f.n_steps() + 108);
            let Ok(ont) = drive::build(&f, Mode::Minimal) else {
                ctx.exec();
                ctx.violation("Builder", "[builder] construction fails on valid facts", json!({"case": f.to_json()}));
                continue;
            };
            let mut counters = (0u64, 0u64);
            match guard(|| check_ontology(&ont, &r, &[Alg::Distance, Alg::GraphIc, Alg::Resnik], &mut counters)) {
                Ok(None) => {}
                Ok(Some((site, sig, det))) => ctx.violation(&site, &sig, json!({"facts": f.to_json(), "dag": d.describe(), "difference": det, "rust": f.to_rust(false)})),
                Err(p) => ctx.violation("Similarity::calculate", "panics", json!({"facts": f.to_json(), "observed": p})),
            }
            ctx.execs(counters.0);
            ctx.validateds(counters.0);
            ctx.nontrivials(counters.1);
            ctx.sample(|| json!({"dag": d.describe(), "ids": ids}));
        }
    }
    // ---- very many records: information contents far below 1e-3 are still information contents - no tolerance
    // may turn them into zero. 65 535 genes is the largest number of records the crate documents to accept: the
    // term carrying all but one of them has the smallest non-zero information content it can produce (1.5e-5),
    // the term below it (all but two) the next one (3.1e-5) - two distinct tiny values whose ratios are scores.
    // The second case has more records than that: whether such an ontology can be built is C03's question
    // (refusing is accepted there); if one is handed out, every score on it is held to the same formulas
    // (|records(a) u records(b)| > 65 535 for Mutation).
    {
        ctx.space("builder/many-records", "6 terms (1; 2, 6 below 1; 3, 4 below 2; 5 below 3 and 4) with (65 535 | 70 000) genes and 20 000 OMIM diseases: all genes but one on HP:2 (IC 1.5e-5 for 65 535), all but two on HP:3 (IC 3.1e-5), 20 000 on 4, every 300th on 5, the last one on 6; all OMIM diseases but one on 2, 5 000 on 5; all 36 ordered pairs x 8 algorithms x 3 kinds (70 000 genes: only if the Builder hands out an ontology)");
        for ng in [65_535u32, 70_000] {
            if !ctx.take() {
                continue;
            }
            ctx.state();
            let mut f = Facts::default();
            for t in 1..=6u32 {
                f.terms.push(Facts::term(t, &format!("T{t}")));
            }
            f.edges = vec![(2, 1), (6, 1), (3, 2), (4, 2), (5, 3), (5, 4)];
            for g in 0..ng - 1 {
                f.anns.push(Facts::ann(Kind::Gene, g, "G", Some(2)));
                if g < ng - 2 {
                    f.anns.push(Facts::ann(Kind::Gene, g, "G", Some(3)));
                }
                if g < 20_000 {
                    f.anns.push(Facts::ann(Kind::Gene, g, "G", Some(4)));
                }
                if g % 300 == 0 {
                    f.anns.push(Facts::ann(Kind::Gene, g, "G", Some(5)));
                }
            }
            f.anns.push(Facts::ann(Kind::Gene, ng - 1, "G", Some(6)));
            let nd = 20_000u32;
            for d in 0..nd - 1 {
                f.anns.push(Facts::ann(Kind::Omim, d, "D", Some(2)));
                if d < 5_000 {
                    f.anns.push(Facts::ann(Kind::Omim, d, "D", Some(5)));
                }
            }
            f.anns.push(Facts::ann(Kind::Omim, nd - 1, "D", Some(6)));
            f.anns.push(Facts::ann(Kind::Orpha, 1, "O1", Some(3)));
            f.anns.push(Facts::ann(Kind::Orpha, 2, "O2", Some(6)));
            let r = RefOnt::derive(&f);
            ctx.transitions(f.n_steps() + 36 * 24);
            let layout = format!("{ng} genes / {nd} OMIM diseases, all but one on HP:2, all genes but two on HP:3");
            match drive::build(&f, Mode::Minimal) {
                // more records than the documented limit: refused (today's behaviour) or computed - C03's question
                Err(_) if ng > 65_535 => {
                    ctx.exec();
                    ctx.bump("builds_beyond_65535_records_refused", 1);
                }
                Err(e) => ctx.violation("Builder", "[builder] construction fails on valid facts", json!({"genes": ng, "omim": nd, "observed": e})),
                Ok(ont) => {
                    let mut counters = (0u64, 0u64);
                    match guard(|| check_ontology(&ont, &r, &ALGS, &mut counters)) {
                        Ok(None) => {}
                        Ok(Some((site, sig, det))) => ctx.violation(&site, &format!("[many records] {sig}"), json!({"layout": layout, "difference": det})),
                        Err(p) => ctx.violation("Similarity::calculate", "[many records] panics", json!({"layout": layout, "observed": p})),
                    }
                    ctx.execs(counters.0);
                    ctx.validateds(counters.0);
                    ctx.nontrivials(counters.1);
                }
            }
            ctx.sample(|| json!({"genes": ng, "omim": nd, "terms": 6}));
            // the record tables of these two cases are large: hand the memory back before the next ontologies are built
            crate::ctx::trim_heap();
        }
    }
    // ---- sequences of ontologies built one after the other at the same address (scores must not depend on
    // what was scored before, in this or in another ontology; kinds innermost)
    {
        let mut total = (0u64, 0u64);
        super::common::ontology_sequences(ctx, "builder", Mode::Minimal, &mut |ont, r| check_ontology(ont, r, &ALGS, &mut total));
    }
}
