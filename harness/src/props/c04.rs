//! C04 - built-in term similarities follow their definitions, symmetric and finite.

use super::c01::POOL;
use super::common::AnnGroups;
use crate::ctx::{guard, Ctx};
use crate::drive;
use crate::model::{Facts, Kind, Mode, RefOnt, KINDS};
use crate::obs::Obs;
use crate::space::all_dags;
use hpo::similarity::{Builtins, Distance, GraphIc, InformationCoefficient, Jc, Lin, Mutation, Relevance, Resnik, Similarity};
use hpo::term::InformationContentKind;
use hpo::Ontology;
use serde_json::json;

#[derive(Clone, Copy, Debug, PartialEq, Eq)]
pub enum Alg {
    GraphIc,
    Resnik,
    Lin,
    Jc,
    Relevance,
    InformationCoefficient,
    Distance,
    Mutation,
}

pub const ALGS: [Alg; 8] = [Alg::GraphIc, Alg::Resnik, Alg::Lin, Alg::Jc, Alg::Relevance, Alg::InformationCoefficient, Alg::Distance, Alg::Mutation];

fn ick(k: Kind) -> InformationContentKind {
    match k {
        Kind::Gene => InformationContentKind::Gene,
        Kind::Omim => InformationContentKind::Omim,
        Kind::Orpha => InformationContentKind::Orpha,
    }
}

/// Reference formulas, evaluated in f64 on the model (ICs rounded to f32 first, as the library stores them).
pub fn reference(r: &RefOnt, alg: Alg, kind: Kind, a: u32, b: u32) -> f64 {
    let ic = |t: u32| r.ic(t, kind) as f64;
    let common_incl: Vec<u32> = r.anc_incl(a).intersection(&r.anc_incl(b)).copied().collect();
    let resnik = common_incl.iter().map(|t| ic(*t)).fold(0.0f64, f64::max);
    let lin = {
        let s = ic(a) + ic(b);
        if s == 0.0 {
            0.0
        } else {
            2.0 * resnik / s
        }
    };
    match alg {
        Alg::Resnik => resnik,
        Alg::Lin => lin,
        Alg::Jc => {
            if a == b {
                1.0
            } else if ic(a) == 0.0 || ic(b) == 0.0 {
                0.0
            } else {
                1.0 / (ic(a) + ic(b) - 2.0 * resnik + 1.0)
            }
        }
        Alg::Relevance => lin * (1.0 - (-resnik).exp()),
        Alg::InformationCoefficient => lin * (1.0 - 1.0 / (1.0 + resnik)),
        Alg::GraphIc => {
            if a == b {
                return 1.0;
            }
            let union: std::collections::BTreeSet<u32> = r.terms[&a].ancestors.union(&r.terms[&b].ancestors).copied().collect();
            let u: f64 = union.iter().map(|t| ic(*t)).sum();
            if u == 0.0 {
                0.0
            } else {
                common_incl.iter().map(|t| ic(*t)).sum::<f64>() / u
            }
        }
        Alg::Distance => match r.distance(a, b) {
            Some(d) => 1.0 / (d as f64 + 1.0),
            None => 0.0,
        },
        Alg::Mutation => {
            if a == b {
                return 1.0;
            }
            let (x, y) = (&r.terms[&a].recs[kind.idx()], &r.terms[&b].recs[kind.idx()]);
            let u = x.union(y).count();
            if u == 0 {
                0.0
            } else {
                x.intersection(y).count() as f64 / u as f64
            }
        }
    }
}

fn scores(alg: Alg, k: InformationContentKind, a: &hpo::HpoTerm, b: &hpo::HpoTerm) -> [f32; 3] {
    let (bi, direct): (Builtins, f32) = match alg {
        Alg::GraphIc => (Builtins::GraphIc(k), GraphIc::new(k).calculate(a, b)),
        Alg::Resnik => (Builtins::Resnik(k), Resnik::new(k).calculate(a, b)),
        Alg::Lin => (Builtins::Lin(k), Lin::new(k).calculate(a, b)),
        Alg::Jc => (Builtins::Jc(k), Jc::new(k).calculate(a, b)),
        Alg::Relevance => (Builtins::Relevance(k), Relevance::new(k).calculate(a, b)),
        Alg::InformationCoefficient => (Builtins::InformationCoefficient(k), InformationCoefficient::new(k).calculate(a, b)),
        Alg::Distance => (Builtins::Distance(k), Distance::new().calculate(a, b)),
        Alg::Mutation => (Builtins::Mutation(k), Mutation::new(k).calculate(a, b)),
    };
    [a.similarity_score(b, &bi), bi.calculate(a, b), direct]
}

type V = Option<(String, String, String)>;

pub fn check_ontology(ont: &Ontology, r: &RefOnt, algs: &[Alg], counters: &mut (u64, u64)) -> V {
    check_ontology_strided(ont, r, algs, counters, 1)
}

pub fn check_ontology_strided(ont: &Ontology, r: &RefOnt, algs: &[Alg], counters: &mut (u64, u64), stride: usize) -> V {
    let ids: Vec<u32> = r.terms.keys().copied().collect();
    let firsts: Vec<u32> = ids.iter().copied().step_by(stride).collect();
    check_ontology_pairs(ont, r, algs, counters, &firsts, &ids)
}

pub fn check_ontology_pairs(ont: &Ontology, r: &RefOnt, algs: &[Alg], counters: &mut (u64, u64), firsts: &[u32], seconds: &[u32]) -> V {
    for &a in firsts {
        for &b in seconds {
            let (ta, tb) = (ont.hpo(a).unwrap(), ont.hpo(b).unwrap());
            for &alg in algs {
                for kind in KINDS {
                    counters.0 += 1;
                    let s = scores(alg, ick(kind), &ta, &tb);
                    let site = format!("{alg:?}({})", kind.name());
                    // the three entry points run the same algorithm: equal up to rounding (NaN-ness must agree too)
                    let agree = |x: f32, y: f32| (x.is_nan() && y.is_nan()) || x == y || (x - y).abs() <= 1e-6 * x.abs().max(y.abs()).max(1.0);
                    if !agree(s[0], s[1]) || !agree(s[1], s[2]) {
                        return Some((site, "similarity_score, Builtins and the concrete struct disagree".into(), format!("({a},{b}): {s:?}")));
                    }
                    let v = s[0];
                    if v.is_nan() {
                        return Some((site, "score is NaN".into(), format!("({a},{b})")));
                    }
                    if !v.is_finite() || v < 0.0 {
                        return Some((site, "score is negative or not finite".into(), format!("({a},{b}): {v}")));
                    }
                    let back = scores(alg, ick(kind), &tb, &ta)[0];
                    if (v - back).abs() > 1e-6 * v.abs().max(1.0) {
                        return Some((site, "score depends on argument order".into(), format!("({a},{b}) = {v}, ({b},{a}) = {back}")));
                    }
                    if a == b && matches!(alg, Alg::GraphIc | Alg::Jc | Alg::Distance | Alg::Mutation) && v != 1.0 {
                        return Some((site, "self-similarity is not 1".into(), format!("({a},{a}) = {v}")));
                    }
                    let want = reference(r, alg, kind, a, b);
                    if want != 0.0 && want != 1.0 {
                        counters.1 += 1;
                    }
                    if (v as f64 - want).abs() > 1e-6 + 1e-5 * want.abs() {
                        return Some((site, "score differs from the documented formula".into(), format!("({a},{b}): observed {v} expected {want}")));
                    }
                }
            }
        }
    }
    None
}

fn calibrate(ctx: &mut Ctx) {
    ctx.space("calibration/example.hpo", "reference formulas evaluated on the facts of tests/example.hpo must reproduce the literal pinned in the crate's documentation (GraphIc(Omim)(HP:0012638, HP:0100547) = 0.112043366) and agree with the library on all 26x26 pairs");
    if !ctx.take() {
        return;
    }
    ctx.state();
    ctx.exec();
    ctx.validated();
    ctx.nontrivial();
    ctx.transitions(1);
    let res = guard(|| Ontology::from_binary("/repo/tests/example.hpo"));
    let Ok(Ok(ont)) = res else {
        ctx.violation("Ontology::from_binary", "cannot load tests/example.hpo", json!({}));
        return;
    };
    let Ok(obs) = Obs::of(&ont) else {
        ctx.violation("read API walk", "cannot observe tests/example.hpo", json!({}));
        return;
    };
    // facts as observed (direct parents and direct record terms)
    let mut f = Facts::default();
    for t in &obs.terms {
        f.terms.push(crate::model::TermFact { id: t.id, name: t.name.clone(), obsolete: t.obsolete, replacement: t.replacement });
        for p in &t.parents {
            f.edges.push((t.id, *p));
        }
    }
    for (k, kind) in KINDS.iter().enumerate() {
        for rec in &obs.recs[k] {
            if rec.terms.is_empty() {
                f.anns.push(Facts::ann(*kind, rec.id, &rec.name, None));
            }
            for t in &rec.terms {
                f.anns.push(Facts::ann(*kind, rec.id, &rec.name, Some(*t)));
            }
        }
    }
    let r = RefOnt::derive(&f);
    let lit = reference(&r, Alg::GraphIc, Kind::Omim, 12638, 100547);
    if (lit - 0.112043366).abs() > 2e-6 {
        // the harness' transcription of the formula is wrong: a machinery problem, not a verdict
        panic!("calibration failed: reference GraphIc = {lit}, documentation pins 0.112043366");
    }
    let mut counters = (0u64, 0u64);
    match guard(|| check_ontology(&ont, &r, &ALGS, &mut counters)) {
        Ok(None) => {}
        Ok(Some((site, sig, det))) => ctx.violation(&site, &format!("[example.hpo] {sig}"), json!({"ontology": "tests/example.hpo", "difference": det})),
        Err(p) => ctx.violation("Similarity::calculate", "[example.hpo] panics", json!({"observed": p})),
    }
    ctx.execs(counters.0);
    ctx.validateds(counters.0);
    ctx.sample(|| json!({"ontology": "/repo/tests/example.hpo", "pairs": 26 * 26, "pinned": "GraphIc(Omim)(HP:0012638,HP:0100547)=0.112043366", "reference": lit}));
}

pub fn run(ctx: &mut Ctx) {
    ctx.rule = "case = (labelled DAG, annotation pattern) with all ordered term pairs x 8 algorithms x 3 kinds x 3 entry points; patterns: every subset S (g1<-S, g2<-~S, omim<-rot1 S, orpha<-rot2 S, bare records) and no annotations at all; distinct by construction; non-trivial counts score evaluations whose reference value is neither 0 nor 1".into();
    ctx.assumptions = vec![
        "reference formulas are transcribed from the struct documentation / cited papers and calibrated on the GraphIc literal pinned in the crate's documentation".into(),
        "values compared with atol 1e-6 + rtol 1e-5; NaN, sign, finiteness, self-similarity compared strictly; symmetry within 1e-6 relative".into(),
    ];
    calibrate(ctx);
    let thorough = ctx.tier.thorough();
    let max_n = if thorough { 5 } else { 4 };
    for n in 1..=max_n {
        let dags = all_dags(n);
        ctx.space(&format!("builder/D{n}/patterns-x-pairs"), &format!("{} labelled DAGs x {} annotation patterns x {} ordered pairs x 8 algorithms x 3 kinds", dags.len(), (1 << n) + 1, n * n));
        for d in &dags {
            for s in 0..=(1u32 << n) {
                if !ctx.take() {
                    continue;
                }
                ctx.state();
                let base = Facts::from_dag(d, &POOL);
                let ids: Vec<u32> = base.terms.iter().map(|t| t.id).collect();
                let anns = if s == (1 << n) { vec![] } else { AnnGroups::new(s, &ids).interleaved() };
                let f = Facts { anns, ..base };
                let r = RefOnt::derive(&f);
                ctx.transitions(f.n_steps() + (n * n * 24) as u64);
                let Ok(ont) = drive::build(&f, Mode::Minimal) else {
                    ctx.exec();
                    ctx.violation("Builder", "[builder] construction fails on valid facts", json!({"case": f.to_json()}));
                    continue;
                };
                let mut counters = (0u64, 0u64);
                match guard(|| check_ontology(&ont, &r, &ALGS, &mut counters)) {
                    Ok(None) => {}
                    Ok(Some((site, sig, det))) => ctx.violation(&site, &sig, json!({"facts": f.to_json(), "dag": d.describe(), "difference": det, "rust": f.to_rust(false)})),
                    Err(p) => ctx.violation("Similarity::calculate", "panics", json!({"facts": f.to_json(), "observed": p})),
                }
                ctx.execs(counters.0);
                ctx.validateds(counters.0);
                ctx.nontrivials(counters.1);
                ctx.outcome(crate::ctx::fnv_str(&format!("{}{}", d.describe(), s)) % 8192);
                ctx.sample(|| json!({"dag": d.describe(), "ids": ids, "pattern": if s == (1 << n) { "no annotations".to_string() } else { format!("S={:?}", crate::space::bits(s, n)) }}));
            }
        }
    }
    // ---- structured large graphs: ancestor sets beyond 30 ids, long chains, many routes
    {
        let family = crate::props::common::large_family();
        ctx.space("large-structured/patterns-x-pairs", &format!("{} large shapes with genes on the last term / every 7th term, OMIM on the middle and the top term, ORPHA on the last two terms; all ordered pairs x 8 algorithms x 3 kinds (shapes with > 70 terms: every 3rd term as first argument)", family.len()));
        for (base, what) in &family {
            if !ctx.take() {
                continue;
            }
            ctx.state();
            let ids: Vec<u32> = base.terms.iter().map(|t| t.id).collect();
            let n = ids.len();
            let mut anns = vec![Facts::ann(Kind::Gene, 11, "GENE1", Some(ids[n - 1])), Facts::ann(Kind::Gene, 33, "GENE3", None)];
            for i in (0..n).step_by(7) {
                anns.push(Facts::ann(Kind::Gene, 22, "GENE2", Some(ids[i])));
            }
            anns.push(Facts::ann(Kind::Omim, 600_001, "Disease one", Some(ids[n / 2])));
            anns.push(Facts::ann(Kind::Omim, 600_003, "Disease three", Some(ids[0])));
            anns.push(Facts::ann(Kind::Omim, 600_002, "Disease two, bare", None));
            anns.push(Facts::ann(Kind::Orpha, 77, "Orpha one", Some(ids[n - 1])));
            anns.push(Facts::ann(Kind::Orpha, 78, "Orpha two", Some(ids[n - 2])));
            anns.push(Facts::ann(Kind::Orpha, 79, "Orpha three, bare", None));
            let f = Facts { anns, ..base.clone() };
            // for the biggest shapes restrict the model to keep the case short: check on a sub-model of first arguments
            let r = RefOnt::derive(&f);
            ctx.transitions(f.n_steps() + (n * n * 24) as u64);
            let Ok(ont) = drive::build(&f, Mode::Minimal) else {
                ctx.exec();
                ctx.violation("Builder", "[builder] construction fails on valid facts", json!({"shape": what}));
                continue;
            };
            let mut counters = (0u64, 0u64);
            let stride = if n > 70 { 3 } else { 1 };
            let sel: Vec<u32> = crate::props::common::selected_positions(n).into_iter().map(|k| ids[k]).collect();
            match guard(|| if n > 120 { check_ontology_pairs(&ont, &r, &ALGS, &mut counters, &sel, &sel) } else { check_ontology_strided(&ont, &r, &ALGS, &mut counters, stride) }) {
                Ok(None) => {}
                Ok(Some((site, sig, det))) => ctx.violation(&site, &format!("[large shape] {sig}"), json!({"shape": what, "n_terms": n, "difference": det})),
                Err(p) => ctx.violation("Similarity::calculate", "[large shape] panics", json!({"shape": what, "observed": p})),
            }
            ctx.execs(counters.0);
            ctx.validateds(counters.0);
            ctx.nontrivials(counters.1);
            ctx.sample(|| json!({"shape": what, "n_terms": n}));
        }
    }
    // ---- decoded ontologies whose terms are flagged obsolete and / or replaced while still connected and
    // annotated (the Builder cannot set the flags): the formulas do not involve the flags
    for n in 2..=4usize {
        let dags = all_dags(n);
        ctx.space(&format!("binary/D{n}/flagged-terms-x-pairs"), &format!("{} labelled DAGs over {:?} decoded from a v3 file x (each single term flagged obsolete and replaced by the next one | all terms flagged) x one annotation pattern x {} ordered pairs x 8 algorithms x 3 kinds", dags.len(), &super::c01::POOL_ROOTS[..n], n * n));
        for d in &dags {
            if !ctx.take() {
                continue;
            }
            ctx.state();
            let mut base = Facts::from_dag(d, &super::c01::POOL_ROOTS);
            base.version = (2024, 2, 29);
            let ids: Vec<u32> = base.terms.iter().map(|t| t.id).collect();
            base.anns = AnnGroups::new(0b0110 & ((1 << n) - 1), &ids).interleaved();
            for k in 0..=n {
                let mut f = base.clone();
                for i in 0..n {
                    if i == k || k == n {
                        f.terms[i].obsolete = true;
                        f.terms[i].replacement = Some(ids[(i + 1) % n]);
                    }
                }
                let r = RefOnt::derive(&f);
                ctx.transitions(f.n_steps() + (n * n * 24) as u64);
                let bytes = crate::encode::encode(&f, &crate::encode::EncOpts::v(3));
                let Ok(Ok(ont)) = drive::from_bytes(&bytes) else {
                    ctx.exec();
                    ctx.violation("Ontology::from_bytes", "[binary v3] cannot decode a file laid out as documented", json!({"case": f.to_json()}));
                    continue;
                };
                let mut counters = (0u64, 0u64);
                match guard(|| check_ontology(&ont, &r, &ALGS, &mut counters)) {
                    Ok(None) => {}
                    Ok(Some((site, sig, det))) => ctx.violation(&site, &format!("[flagged terms] {sig}"), json!({"facts": f.to_json(), "dag": d.describe(), "flagged": if k == n { "all terms".to_string() } else { format!("term {}", ids[k]) }, "difference": det})),
                    Err(p) => ctx.violation("Similarity::calculate", "[flagged terms] panics", json!({"facts": f.to_json(), "observed": p})),
                }
                ctx.execs(counters.0);
                ctx.validateds(counters.0);
                ctx.nontrivials(counters.1);
            }
            ctx.sample(|| json!({"dag": d.describe(), "ids": ids, "flag patterns": n + 1}));
        }
    }
    if !thorough {
        // distance-shaped algorithm on all 5-node graphs (its interesting shapes need 5 terms)
        let n = 5;
        let dags = all_dags(n);
        ctx.space("builder/D5/distance+graphic", &format!("{} labelled DAGs x 25 ordered pairs x Distance, GraphIc, Resnik with one annotation pattern", dags.len()));
        for d in &dags {
            if !ctx.take() {
                continue;
            }
            ctx.state();
            let base = Facts::from_dag(d, &POOL);
            let ids: Vec<u32> = base.terms.iter().map(|t| t.id).collect();
            let f = Facts { anns: AnnGroups::new(0b00110, &ids).interleaved(), ..base };
            let r = RefOnt::derive(&f);
            ctx.transitions(f.n_steps() + 75);
            let Ok(ont) = drive::build(&f, Mode::Minimal) else {
                ctx.exec();
                continue;
            };
            let mut counters = (0u64, 0u64);
            match guard(|| check_ontology(&ont, &r, &[Alg::Distance, Alg::GraphIc, Alg::Resnik], &mut counters)) {
                Ok(None) => {}
                Ok(Some((site, sig, det))) => ctx.violation(&site, &sig, json!({"facts": f.to_json(), "dag": d.describe(), "difference": det, "rust": f.to_rust(false)})),
                Err(p) => ctx.violation("Similarity::calculate", "panics", json!({"facts": f.to_json(), "observed": p})),
            }
            ctx.execs(counters.0);
            ctx.validateds(counters.0);
            ctx.nontrivials(counters.1);
            ctx.sample(|| json!({"dag": d.describe(), "ids": ids}));
        }
    }
    // ---- the name dispatch: every documented name and alias, in three spellings, for the three kinds, gives
    // the variant of that name (scores equal to the literal variant on a 4-term ontology); other names are refused
    {
        ctx.space("names/Builtins::new", "13 documented names and aliases x {lower, UPPER, Mixed} x 3 kinds: Builtins::new(name, kind) scores like the literal variant on all 16 pairs of a 4-term ontology; 9 non-names are refused");
        if ctx.take() {
            ctx.state();
            ctx.nontrivial();
            let names: [(&str, Alg); 13] = [("graphic", Alg::GraphIc), ("resnik", Alg::Resnik), ("distance", Alg::Distance), ("dist", Alg::Distance), ("informationcoefficient", Alg::InformationCoefficient), ("ic", Alg::InformationCoefficient), ("jc", Alg::Jc), ("jc2", Alg::Jc), ("lin", Alg::Lin), ("relevance", Alg::Relevance), ("rel", Alg::Relevance), ("mutation", Alg::Mutation), ("mut", Alg::Mutation)];
            let dag = &all_dags(4)[400];
            let base = Facts::from_dag(dag, &POOL);
            let ids: Vec<u32> = base.terms.iter().map(|t| t.id).collect();
            let f = Facts { anns: AnnGroups::new(0b0110, &ids).interleaved(), ..base };
            match drive::build(&f, Mode::Minimal) {
                Err(e) => ctx.violation("Builder", "[builder] construction fails on valid facts", json!({"case": f.to_json(), "observed": e})),
                Ok(ont) => {
                    let res = guard(|| -> V {
                        for (name, alg) in names {
                            let mixed: String = name.chars().enumerate().map(|(i, c)| if i % 2 == 0 { c.to_ascii_uppercase() } else { c }).collect();
                            for spelled in [name.to_string(), name.to_uppercase(), mixed] {
                                for kind in KINDS {
                                    let k = ick(kind);
                                    let Ok(b) = Builtins::new(&spelled, k) else {
                                        return Some(("Builtins::new".into(), "refuses a documented name".into(), format!("{spelled:?}")));
                                    };
                                    for &x in &ids {
                                        for &y in &ids {
                                            let (tx, ty) = (ont.hpo(x).unwrap(), ont.hpo(y).unwrap());
                                            let got = b.calculate(&tx, &ty);
                                            let want = scores(alg, k, &tx, &ty)[2];
                                            if !(got == want || (got.is_nan() && want.is_nan()) || (got - want).abs() <= 1e-6 * want.abs().max(1.0)) {
                                                return Some(("Builtins::new".into(), "the name selects another algorithm or kind".into(), format!("Builtins::new({spelled:?}, {}) on ({x},{y}) = {got}, {alg:?} gives {want}", kind.name())));
                                            }
                                        }
                                    }
                                }
                            }
                        }
                        for bad in ["", " ", "graph", "graphic ", "resnick", "jc3", "ic2", "distance1", "does-not-exist"] {
                            if Builtins::new(bad, InformationContentKind::Omim).is_ok() {
                                return Some(("Builtins::new".into(), "accepts a name that is not documented".into(), format!("{bad:?}")));
                            }
                        }
                        None
                    });
                    ctx.execs(13 * 3 * 3 * 16);
                    ctx.validateds(13 * 3 * 3 * 16);
                    match res {
                        Ok(None) => {}
                        Ok(Some((site, sig, det))) => ctx.violation(&site, &sig, json!({"facts": f.to_json(), "difference": det})),
                        Err(p) => ctx.violation("Builtins::new", "panics", json!({"observed": p})),
                    }
                }
            }
            ctx.sample(|| json!({"names": names.iter().map(|n| n.0).collect::<Vec<_>>()}));
        }
    }
    // ---- properly overlapping record sets and as many information-content levels as terms: record i on node i,
    // record n+i on nodes i and i+1 (per kind, with different offsets), one bare record
    for n in 2..=4usize {
        let dags = all_dags(n);
        ctx.space(&format!("builder/D{n}/overlapping-records-x-pairs"), &format!("{} labelled DAGs x (record i on term i, record n+i on terms i and i+1 mod n; OMIM shifted by one, ORPHA by two) x {} ordered pairs x 8 algorithms x 3 kinds", dags.len(), n * n));
        for d in &dags {
            if !ctx.take() {
                continue;
            }
            ctx.state();
            let base = Facts::from_dag(d, &POOL);
            let ids: Vec<u32> = base.terms.iter().map(|t| t.id).collect();
            let mut anns = vec![];
            for (ki, kind) in KINDS.iter().enumerate() {
                for i in 0..n {
                    anns.push(Facts::ann(*kind, 100 + i as u32, &format!("S{i}"), Some(ids[(i + ki) % n])));
                    anns.push(Facts::ann(*kind, 200 + i as u32, &format!("P{i}"), Some(ids[(i + ki) % n])));
                    anns.push(Facts::ann(*kind, 200 + i as u32, &format!("P{i}"), Some(ids[(i + ki + 1) % n])));
                }
                anns.push(Facts::ann(*kind, 999, "bare", None));
            }
            let f = Facts { anns, ..base };
            let r = RefOnt::derive(&f);
            ctx.transitions(f.n_steps() + (n * n * 24) as u64);
            let Ok(ont) = drive::build(&f, Mode::Minimal) else {
                ctx.exec();
                ctx.violation("Builder", "[builder] construction fails on valid facts", json!({"case": f.to_json()}));
                continue;
            };
            let mut counters = (0u64, 0u64);
            match guard(|| check_ontology(&ont, &r, &ALGS, &mut counters)) {
                Ok(None) => {}
                Ok(Some((site, sig, det))) => ctx.violation(&site, &format!("[overlapping records] {sig}"), json!({"facts": f.to_json(), "dag": d.describe(), "difference": det})),
                Err(p) => ctx.violation("Similarity::calculate", "[overlapping records] panics", json!({"facts": f.to_json(), "observed": p})),
            }
            ctx.execs(counters.0);
            ctx.validateds(counters.0);
            ctx.nontrivials(counters.1);
            ctx.sample(|| json!({"dag": d.describe(), "ids": ids}));
        }
    }
    // ---- six terms (Distance, GraphIc, Resnik): all 32 768 DAGs whose links respect the node order
    if !thorough {
        let dags = crate::space::topo_dags(6);
        ctx.space("builder/T6/distance+graphic", &format!("{} DAGs on 6 terms whose links respect the node order (ids ascending | descending with depth) x 36 ordered pairs x Distance, GraphIc, Resnik", dags.len()));
        for (di, d) in dags.iter().enumerate() {
            if !ctx.take() {
                continue;
            }
            ctx.state();
            let pool: [u32; 6] = if di % 2 == 0 { [1, 7, 118, 4000, 77_777, 9_999_999] } else { [9_999_999, 77_777, 4000, 118, 7, 1] };
            let base = Facts::from_dag(d, &pool);
            let ids: Vec<u32> = base.terms.iter().map(|t| t.id).collect();
            let f = Facts { anns: AnnGroups::new(0b001100, &ids).interleaved(), ..base };
            let r = RefOnt::derive(&f);
            ctx.transitions(f.n_steps() + 108);
            let Ok(ont) = drive::build(&f, Mode::Minimal) else {
                ctx.exec();
                continue;
            };
            let mut counters = (0u64, 0u64);
            match guard(|| check_ontology(&ont, &r, &[Alg::Distance, Alg::GraphIc, Alg::Resnik], &mut counters)) {
                Ok(None) => {}
                Ok(Some((site, sig, det))) => ctx.violation(&site, &sig, json!({"facts": f.to_json(), "dag": d.describe(), "difference": det, "rust": f.to_rust(false)})),
                Err(p) => ctx.violation("Similarity::calculate", "panics", json!({"facts": f.to_json(), "observed": p})),
            }
            ctx.execs(counters.0);
            ctx.validateds(counters.0);
            ctx.nontrivials(counters.1);
            ctx.sample(|| json!({"dag": d.describe(), "ids": ids}));
        }
    }
    // ---- very many records: information contents far below 1e-3 (a term carrying all but one of 30 000 genes)
    // are still information contents - no tolerance may turn them into zero
    {
        ctx.space("builder/many-records", "6 terms (1; 2, 6 below 1; 3, 4 below 2; 5 below 3 and 4) with 30 000 genes and 20 000 OMIM diseases, all but one of each on HP:2 (IC about 3e-5), thousands on 3, 4, 5; all 36 ordered pairs x 8 algorithms x 3 kinds");
        if ctx.take() {
            ctx.state();
            let mut f = Facts::default();
            for t in 1..=6u32 {
                f.terms.push(Facts::term(t, &format!("T{t}")));
            }
            f.edges = vec![(2, 1), (6, 1), (3, 2), (4, 2), (5, 3), (5, 4)];
            let ng = 30_000u32;
            for g in 0..ng - 1 {
                f.anns.push(Facts::ann(Kind::Gene, g, "G", Some(2)));
                if g < 10_000 {
                    f.anns.push(Facts::ann(Kind::Gene, g, "G", Some(3)));
                } else if g < 20_000 {
                    f.anns.push(Facts::ann(Kind::Gene, g, "G", Some(4)));
                }
                if g % 300 == 0 {
                    f.anns.push(Facts::ann(Kind::Gene, g, "G", Some(5)));
                }
            }
            f.anns.push(Facts::ann(Kind::Gene, ng - 1, "G", Some(6)));
            let nd = 20_000u32;
            for d in 0..nd - 1 {
                f.anns.push(Facts::ann(Kind::Omim, d, "D", Some(2)));
                if d < 5_000 {
                    f.anns.push(Facts::ann(Kind::Omim, d, "D", Some(5)));
                }
            }
            f.anns.push(Facts::ann(Kind::Omim, nd - 1, "D", Some(6)));
            f.anns.push(Facts::ann(Kind::Orpha, 1, "O1", Some(3)));
            f.anns.push(Facts::ann(Kind::Orpha, 2, "O2", Some(6)));
            let r = RefOnt::derive(&f);
            ctx.transitions(f.n_steps() + 36 * 24);
            match drive::build(&f, Mode::Minimal) {
                Err(e) => ctx.violation("Builder", "[builder] construction fails on valid facts", json!({"genes": ng, "omim": nd, "observed": e})),
                Ok(ont) => {
                    let mut counters = (0u64, 0u64);
                    match guard(|| check_ontology(&ont, &r, &ALGS, &mut counters)) {
                        Ok(None) => {}
                        Ok(Some((site, sig, det))) => ctx.violation(&site, &format!("[many records] {sig}"), json!({"layout": "30 000 genes / 20 000 OMIM diseases, all but one on HP:2", "difference": det})),
                        Err(p) => ctx.violation("Similarity::calculate", "[many records] panics", json!({"observed": p})),
                    }
                    ctx.execs(counters.0);
                    ctx.validateds(counters.0);
                    ctx.nontrivials(counters.1);
                }
            }
            ctx.sample(|| json!({"genes": ng, "omim": nd, "terms": 6}));
        }
    }
    // ---- sequences of ontologies built one after the other at the same address (scores must not depend on
    // what was scored before, in this or in another ontology; kinds innermost)
    {
        let mut total = (0u64, 0u64);
        super::common::ontology_sequences(ctx, "builder", Mode::Minimal, &mut |ont, r| check_ontology(ont, r, &ALGS, &mut total));
    }
}
