//! C09 - JAX text loaders build exactly the ontology the three files describe.

use super::common::{format_family, via_jax};
use crate::ctx::Ctx;
use crate::drive;
use crate::encode::{self, EncOpts};
use crate::jax::{self, Distractor, JaxOpts};
use crate::model::{Facts, Kind, Mode};
use crate::obs::Obs;
use crate::space::{permutations, rotations_and_reverse};
use serde_json::json;

fn all_distractors(n_terms: usize) -> Vec<Distractor> {
    vec![
        Distractor::NotRowOmimExisting,
        Distractor::NotRowOmimOnly,
        Distractor::NotRowOrphaExisting,
        Distractor::NotRowOrphaOnly,
        Distractor::NotRowTwinsFirst,
        Distractor::NotRowTwinsLast,
        Distractor::HpoaComments,
        Distractor::HpoaColumnHeader,
        Distractor::HpoaCommentMiddle,
        Distractor::DecipherRow,
        Distractor::GeneHeader(1),
        Distractor::Typedef(0),
        Distractor::Typedef(1),
        Distractor::Typedef(n_terms),
        Distractor::GeneTrailingColumns,
        Distractor::GeneMinimalColumns,
        Distractor::ExtraTags,
        Distractor::TagsBetweenIsA,
        Distractor::ExplicitNotObsolete,
        Distractor::MissingDataVersion,
        Distractor::ExtraHeaderLines,
        Distractor::NoTrailingNewline,
        Distractor::TrailingBlankLines,
        Distractor::HpoaFilledColumns,
        Distractor::HpoaMinimalColumns,
        Distractor::NoHeaderBlock,
        Distractor::TagsBeforeName,
        Distractor::GeneHeaderLong(20_000),
        Distractor::HpoaCommentLong(20_000),
        Distractor::IsATrailingModifier,
        Distractor::AnnotationFilesNoTrailingNewline,
        Distractor::GeneFilledColumns,
        Distractor::HeaderLinesBeforeDataVersion,
        Distractor::ConsiderNamespaceTags,
        Distractor::DuplicateIsA,
        Distractor::IsATextInValues,
    ]
}

/// distractors that touch the gene files or the stanza layout: their single-distractor cases also run through
/// from_standard_transitive
fn also_transitive(d: &Distractor) -> bool {
    matches!(
        d,
        Distractor::GeneHeader(_)
            | Distractor::GeneTrailingColumns
            | Distractor::GeneMinimalColumns
            | Distractor::Typedef(_)
            | Distractor::ExtraTags
            | Distractor::TagsBetweenIsA
            | Distractor::ExplicitNotObsolete
            | Distractor::HpoaFilledColumns
            | Distractor::HpoaMinimalColumns
            | Distractor::NoHeaderBlock
            | Distractor::TagsBeforeName
            | Distractor::GeneHeaderLong(_)
            | Distractor::HpoaCommentLong(_)
            | Distractor::IsATrailingModifier
            | Distractor::AnnotationFilesNoTrailingNewline
            | Distractor::GeneFilledColumns
            | Distractor::ConsiderNamespaceTags
            | Distractor::DuplicateIsA
            | Distractor::IsATextInValues
            | Distractor::MissingDataVersion
    )
}

/// facts as the text formats can express them (no bare records, no empty names)
fn textual(f: &Facts) -> Facts {
    let mut t = f.clone();
    t.anns.retain(|a| a.term.is_some());
    for x in t.terms.iter_mut() {
        if x.name.is_empty() {
            x.name = "n".into();
        }
    }
    t
}

/// What a run may do besides loading the files into exactly the model of the facts: inputs that the quantifier of
/// the property does not list get a policy-neutral oracle instead of today's behaviour.
#[derive(Clone, Default)]
struct Leeway {
    /// non-empty: the loader may refuse the files with an error (the reasons, for the counters); a panic is a
    /// violation either way, and an ontology that is returned must be the described one
    may_refuse: Vec<&'static str>,
    /// the release version is not compared (no data-version line: nothing states what the version then is)
    ignore_version: bool,
    /// further fact sets the loaded ontology may equal (a record name with and without its surrounding blanks)
    alternatives: Vec<Facts>,
}

impl Leeway {
    fn strict(&self) -> bool {
        self.may_refuse.is_empty() && !self.ignore_version && self.alternatives.is_empty()
    }
}

/// The leeway that follows from the file layout and the facts themselves.
fn leeway_for(f: &Facts, o: &JaxOpts) -> Leeway {
    let mut lw = Leeway::default();
    if o.has(&Distractor::NoHeaderBlock) {
        // the property does not say what a file without header block / without data-version line is worth: a loader
        // may insist on either (an error is tolerated); if it loads the file, every stanza counts
        lw.may_refuse.push("no header block");
        lw.ignore_version = true;
    }
    if o.has(&Distractor::MissingDataVersion) {
        lw.may_refuse.push("no data-version line");
        lw.ignore_version = true;
    }
    if o.has(&Distractor::GeneMinimalColumns) || o.has(&Distractor::HpoaMinimalColumns) {
        // the quantifier lists EXTRA trailing columns; rows that end after the last column today's parser reads occur
        // in no release, a loader may check the column count
        lw.may_refuse.push("rows with fewer columns than the format has");
    }
    if o.has(&Distractor::TagsBeforeName) {
        // legal OBO, but every OBO serialiser writes id, name, ... in a fixed order; the quantifier lists stanza
        // order, not tag order
        lw.may_refuse.push("tags between id: and name:");
    }
    if o.has(&Distractor::DuplicateIsA) {
        lw.may_refuse.push("a doubled is_a line");
    }
    if f.terms.iter().any(|t| t.name.len() > 255) || f.anns.iter().any(|a| a.kind == Kind::Gene && a.name.len() > 255) {
        // the 255-byte limit belongs to the binary format (C07); a text loader that refuses what as_bytes cannot
        // carry is defensible, one that accepts it must keep the name
        lw.may_refuse.push("a term name or gene symbol of more than 255 bytes");
    }
    lw
}

fn with_opts(ctx: &mut Ctx, f: &Facts, o: &JaxOpts, transitive: bool, what: &str) -> Option<Obs> {
    let lw = leeway_for(f, o);
    if lw.strict() {
        return via_jax(ctx, f, o, transitive, what);
    }
    let (accepted, res) = with_leeway(ctx, f, jax::render(f, o), &format!("{o:?}"), transitive, what, &lw);
    // The leeway is the union over the elements of the file set. A refusal of a COMBINATION by a loader that accepts
    // each of its unspecified elements alone (same facts, same stanza / row order) is not explained by the loader's
    // policy on any of them; the statement still does not forbid it, so it stays without verdict - under its own key,
    // which the run's NOTE shows.
    if accepted == Some(false) && o.distractors.len() >= 2 {
        let single = |d: &Distractor| {
            let mut s = o.clone();
            s.distractors = vec![d.clone()];
            s
        };
        let lenient: Vec<&Distractor> = o.distractors.iter().filter(|d| !leeway_for(&Facts::default(), &single(d)).may_refuse.is_empty()).collect();
        let names_ok = leeway_for(f, &JaxOpts::default()).may_refuse.is_empty();
        if names_ok && !lenient.is_empty() && lenient.iter().all(|d| matches!(jax::load(&jax::render(f, &single(d)), transitive), Ok(Ok(_)))) {
            ctx.bump("refused: a combination of layout elements although each unspecified element of it is accepted alone (no verdict)", 1);
        }
    }
    res.map(|x| x.0)
}

/// Policy-neutral run of one rendered file set (`rendered` was made from `g`, possibly edited by the caller): within
/// the given leeway the loader may refuse the files with an error; if it loads them the result must be the model of
/// the facts (or of one of the alternatives). A panic is a violation either way.
/// Returns (Some(accepted?) unless the loader panicked, the observation and the index of the fact set it equals:
/// 0 = `g`, i = alternatives[i - 1]).
fn with_leeway(ctx: &mut Ctx, g: &Facts, rendered: jax::Rendered, options: &str, transitive: bool, what: &str, lw: &Leeway) -> (Option<bool>, Option<(Obs, usize)>) {
    let kind = if lw.may_refuse.is_empty() { "layout variant".to_string() } else { lw.may_refuse.join(" + ") };
    let case = || json!({"facts": g.to_json(), "order": what, "options": options, "transitive_loader": transitive, "hp.obo": rendered.obo, "phenotype.hpoa": rendered.hpoa, "genes": if transitive { &rendered.phenotype_to_genes } else { &rendered.genes_to_phenotype }});
    let path = format!("{}, {kind}", if transitive { "jax transitive" } else { "jax" });
    ctx.transitions(g.n_steps());
    match jax::load(&rendered, transitive) {
        Ok(Ok(ont)) => {
            ctx.exec();
            ctx.validated();
            let obs = match Obs::of(&ont) {
                Ok(o) => o,
                Err(inc) => {
                    ctx.violation(&inc.site, &format!("[{path}] read API inconsistent or panicking"), json!({"path": path, "case": case(), "observed": inc.what}));
                    return (Some(true), None);
                }
            };
            let mut first: Option<(String, String, String)> = None;
            let mut matched: Option<usize> = None;
            for (i, alt) in std::iter::once(g).chain(lw.alternatives.iter()).enumerate() {
                let mut exp = Obs::expected(&crate::model::RefOnt::derive(alt), Mode::Defaults);
                if lw.ignore_version {
                    exp.version = obs.version.clone();
                }
                match obs.diff(&exp, false) {
                    None => {
                        matched = Some(i);
                        break;
                    }
                    Some(d) => {
                        first.get_or_insert(d);
                    }
                }
            }
            ctx.outcome(obs.fingerprint());
            // (so that "nothing accepted, nothing refused" - the space did not run - differs from "all accepted")
            for r in &lw.may_refuse {
                ctx.bump(&format!("accepted: {r}"), 1);
            }
            match (matched, first) {
                (Some(i), _) => (Some(true), Some((obs, i))),
                (None, Some((site, sig, det))) => {
                    ctx.violation(&site, &format!("[{path}] {sig}"), json!({"path": path, "case": case(), "difference": det, "alternatives_tried": lw.alternatives.len()}));
                    (Some(true), None)
                }
                (None, None) => (Some(true), None),
            }
        }
        Ok(Err(e)) => {
            ctx.exec();
            if lw.may_refuse.is_empty() {
                ctx.violation("Ontology::from_standard", &format!("[{}] rejects valid JAX files", if transitive { "jax transitive" } else { "jax" }), json!({"case": case(), "observed": e}));
            } else {
                for r in &lw.may_refuse {
                    ctx.bump(&format!("refused: {r}"), 1);
                }
            }
            (Some(false), None)
        }
        Err(p) => {
            ctx.exec();
            ctx.violation("Ontology::from_standard", &format!("[{path}] panics"), json!({"case": case(), "observed": p}));
            (None, None)
        }
    }
}

/// Observational identity of two real ontologies built from the same facts through different constructors: the whole
/// observation, information content up to rounding (which float expression a constructor evaluates is not part of it).
fn same_up_to_rounding(ctx: &mut Ctx, a: &Obs, b: &Obs, what: &str, case: &dyn Fn() -> serde_json::Value) {
    if let Some((site, sig, det)) = b.diff(a, false) {
        ctx.violation(&site, &format!("[{what}] {sig}"), json!({"comparison": what, "case": case(), "difference": det}));
    }
}

/// phenotype.hpoa with a NOT-qualified twin (same disease, same term, another reference) directly before / after
/// every positive OMIM / ORPHA row: a NOT row between two positive rows of one disease, and a NOT row of one disease
/// directly followed by a positive row of the next
fn interleave_not_twins(hpoa: &str, before: bool) -> String {
    let mut out = String::with_capacity(hpoa.len() * 2);
    for line in hpoa.split_inclusive('\n') {
        let body = line.strip_suffix('\n').unwrap_or(line);
        let cols: Vec<&str> = body.split('\t').collect();
        let twin = if (body.starts_with("OMIM:") || body.starts_with("ORPHA:")) && cols.len() >= 4 && cols[2].is_empty() {
            let mut t: Vec<String> = cols.iter().map(|c| c.to_string()).collect();
            t[2] = "NOT".into();
            if t.len() > 4 {
                t[4] = "PMID:424242".into();
            }
            Some(format!("{}\n", t.join("\t")))
        } else {
            None
        };
        match twin {
            Some(t) if before => {
                out.push_str(&t);
                out.push_str(line);
                if !line.ends_with('\n') {
                    out.push('\n');
                }
            }
            Some(t) => {
                out.push_str(line);
                if !line.ends_with('\n') {
                    out.push('\n');
                }
                out.push_str(&t);
            }
            None => out.push_str(line),
        }
    }
    out
}

/// the facts rendered with `o`, every positive disease row with a NOT twin directly before / after it
fn with_interleaved_twins(ctx: &mut Ctx, f: &Facts, o: &JaxOpts, before: bool, transitive: bool, what: &str) {
    let mut tf = f.clone();
    tf.anns.retain(|a| a.term.is_some());
    let mut rendered = jax::render(&tf, o);
    rendered.hpoa = interleave_not_twins(&rendered.hpoa, before);
    let lw = leeway_for(&tf, o);
    with_leeway(ctx, &tf, rendered, &format!("{o:?} + a NOT twin directly {} every positive row", if before { "before" } else { "after" }), transitive, what, &lw);
}

/// The canonical rendering with NO file under the name of the gene file the loader does not read.
fn other_file_absent(ctx: &mut Ctx, f: &Facts, transitive: bool) {
    let r = crate::model::RefOnt::derive(f);
    let rendered = jax::render(f, &JaxOpts::default());
    ctx.transitions(f.n_steps());
    let path = if transitive { "jax transitive, no genes_to_phenotype.txt in the folder" } else { "jax, no phenotype_to_genes.txt in the folder" };
    let case = || json!({"facts": f.to_json(), "transitive_loader": transitive, "hp.obo": rendered.obo, "phenotype.hpoa": rendered.hpoa, "genes": if transitive { &rendered.phenotype_to_genes } else { &rendered.genes_to_phenotype }});
    match jax::load_with(&rendered, transitive, jax::OtherGeneFile::Absent) {
        Ok(Ok(ont)) => {
            drive::check_against_model(ctx, &ont, &r, Mode::Defaults, path, &case);
        }
        Ok(Err(e)) => {
            ctx.exec();
            // (facts a loader may refuse anyway, e.g. a term name beyond 255 bytes: see leeway_for)
            let lw = leeway_for(f, &JaxOpts::default());
            if lw.may_refuse.is_empty() {
                ctx.violation("Ontology::from_standard", &format!("[{path}] rejects valid JAX files"), json!({"case": case(), "observed": e}));
            } else {
                for r in &lw.may_refuse {
                    ctx.bump(&format!("refused: {r}"), 1);
                }
            }
        }
        Err(p) => {
            ctx.exec();
            ctx.violation("Ontology::from_standard", &format!("[{path}] panics on valid JAX files"), json!({"case": case(), "observed": p}));
        }
    }
}

/// valid calendar dates: every month with the days 1, 9, 10, 11, 19, 20, 21, 28, 29, 30, 31 it has (2024, a leap
/// year), and the years 1 ... 9999 at the turn of the year and on 10-10
fn release_dates() -> Vec<(u16, u8, u8)> {
    let mut v = vec![];
    for m in 1..=12u8 {
        let last = match m {
            2 => 29,
            4 | 6 | 9 | 11 => 30,
            _ => 31,
        };
        for d in [1u8, 9, 10, 11, 19, 20, 21, 28, 29, 30, 31] {
            if d <= last {
                v.push((2024u16, m, d));
            }
        }
    }
    for y in [1u16, 9, 10, 99, 100, 999, 1000, 1999, 2000, 2022, 2023, 9999] {
        v.extend([(y, 1, 1), (y, 10, 10), (y, 12, 31)]);
    }
    v.extend([(2022, 12, 15), (2023, 10, 9), (2024, 8, 31), (2020, 11, 10), (2023, 2, 28)]);
    v
}

pub fn run(ctx: &mut Ctx) {
    let thorough = ctx.tier.thorough();
    ctx.rule = "case = one fact set (labelled DAG over HP:1, HP:118 + <= 2 terms, flag variant, record pattern) rendered as JAX files: all stanza orders, all gene-row and disease-row orders (<= 4 rows, rotations above), every single distractor, both loaders, the gene file the loader does not read holding other rows or missing; plus all pairs of distractors on a set of base fact sets; every stanza-layout distractor also with the stanzas reversed, NOT twins interleaved with the positive rows, every row twice with other values in the ignored columns; plus one base fact set with every release date of a value grid, record ids over the whole u32 range, every record name of a list (empty, padded, non-ASCII, the placeholder -, long) in every column layout, and two same-named records of each kind; differential against the Builder-built and binary-loaded ontology (information content up to rounding); distinct by construction; non-trivial = fact set with records of at least two kinds".into();
    ctx.assumptions = vec![
        "only constructs occurring in JAX releases or allowed there by the OBO format are generated (is_a lines carry the ' ! name' comment, stanzas are separated by one blank line, the header starts with format-version: 1.2; header tags in any order after it; consider / namespace tags; a repeated is_a line names the same parent once more); each gene file carries its own header line".into(),
        "records without any term cannot be expressed in the text formats".into(),
        "release years have four digits".into(),
        "a file set without header block or without data-version line may be refused with an error; if it is loaded every stanza counts and the release version is not compared (nothing states what it is without a data-version line)".into(),
        "policy-neutral (refusal with an error tolerated, a returned ontology must be the described one): rows with fewer columns than the format has (the quantifier lists EXTRA trailing columns), tags between id: and name: and a doubled is_a line (legal OBO, in no release), term names / gene symbols of more than 255 bytes (the limit of the binary format), record ids with more digits than any release has (genes > 9, diseases > 6), an empty or all-blank gene symbol / disease name".into(),
        "blanks at the ends of a gene symbol / disease name may be kept or trimmed (the statement does not fix them, JAX data has none); the Builder differential uses the spelling the loader arrived at. Non-ASCII names are kept byte for byte".into(),
        "the differential partner (Builder, from_bytes) failing to build is the partner's property (C15, C08): counted, not reported".into(),
        "only the gene file a loader is documented to read counts: the folder holds a file with other rows (or no file) under the other name".into(),
    ];
    let family: Vec<(Facts, String)> = format_family(if thorough { 4 } else { 4 }, if thorough { 1 } else { 6 }).into_iter().map(|(f, w)| (textual(&f), w)).collect();
    // term names around and beyond the 255-byte limit of the BINARY format - the text format has no such limit
    let mut family = family;
    // (a family without such a member is a machinery failure: seven fact sets would silently be missing)
    {
        let (base, _) = family.iter().find(|(f, _)| f.terms.len() == 3 && f.anns.iter().any(|a| a.kind == Kind::Gene) && f.terms.iter().all(|t| !t.obsolete && t.replacement.is_none())).cloned().expect("C09: the family has no plain three-term fact set with a gene (base of the long-term-name fact sets)");
        for (len, unit) in [(255usize, "a"), (256, "a"), (300, "a"), (1000, "a"), (128, "\u{e9}"), (150, "\u{e9}"), (86, "\u{20ac}")] {
            let mut f = base.clone();
            f.terms[2].name = unit.repeat(len);
            family.push((f, format!("a term name of {len} x {unit:?} ({} bytes)", len * unit.len())));
        }
    }
    ctx.space("family/orders-and-single-distractors", &format!("{} fact sets x (all stanza orders + gene-row orders + disease-row orders + is_a lines reversed + {} single distractors) x from_standard, a subset also through from_standard_transitive; the folder holds a poison file under the name of the gene file the loader does not read (canonical rendering also without that file); differential against Builder and binary", family.len(), all_distractors(3).len()));
    for (f, what) in &family {
        if !ctx.take() {
            continue;
        }
        ctx.state();
        let kinds_present = [Kind::Gene, Kind::Omim, Kind::Orpha].iter().filter(|k| f.anns.iter().any(|a| a.kind == **k)).count();
        if kinds_present >= 2 {
            ctx.nontrivial();
        }
        let n = f.terms.len();
        let base_obs = with_opts(ctx, f, &JaxOpts::default(), false, "canonical");
        with_opts(ctx, f, &JaxOpts::default(), true, "canonical (transitive loader)");
        other_file_absent(ctx, f, false);
        other_file_absent(ctx, f, true);
        // differential: Builder (no flags) and binary
        if let Some(jobs) = &base_obs {
            if f.terms.iter().all(|t| !t.obsolete && t.replacement.is_none()) {
                ctx.transitions(f.n_steps());
                // (a Builder / decoder that cannot produce the partner is C15's / C08's business: counted, not reported)
                match drive::build(f, Mode::Defaults).map(|b| Obs::of(&b)) {
                    Ok(Ok(bobs)) => {
                        ctx.exec();
                        same_up_to_rounding(ctx, &bobs, jobs, "from_standard vs Builder", &|| json!({"facts": f.to_json(), "family": what}));
                    }
                    _ => ctx.bump("skipped: differential partner not available (Builder refused the facts or its read API is inconsistent; C15's subject)", 1),
                }
            }
            if f.terms.iter().all(|t| t.name.len() <= 255) {
                ctx.transitions(f.n_steps());
                match drive::from_bytes(&encode::encode(f, &EncOpts::v(3))).map(|r| r.map(|b| Obs::of(&b))) {
                    Ok(Ok(Ok(bobs))) => {
                        ctx.exec();
                        same_up_to_rounding(ctx, &bobs, jobs, "from_standard vs from_bytes(v3)", &|| json!({"facts": f.to_json(), "family": what}));
                    }
                    _ => ctx.bump("skipped: differential partner not available (from_bytes(v3) of the independent encoder refused or its read API is inconsistent; C08's subject)", 1),
                }
            }
        }
        // stanza orders
        for p in permutations(n).into_iter().skip(1) {
            let mut o = JaxOpts::default();
            o.stanza_order = Some(p.clone());
            with_opts(ctx, f, &o, false, &format!("stanzas {p:?}"));
        }
        // no header block: whichever stanza comes first, it is a stanza
        for p in permutations(n) {
            let mut o = JaxOpts::default();
            o.stanza_order = Some(p.clone());
            o.distractors = vec![Distractor::NoHeaderBlock];
            with_opts(ctx, f, &o, false, &format!("no header block, stanzas {p:?}"));
        }
        // row orders
        let ng = f.anns.iter().filter(|a| a.kind == Kind::Gene).count();
        let nd = f.anns.len() - ng;
        let gp = if ng <= 4 { permutations(ng) } else { rotations_and_reverse(ng) };
        for p in gp.into_iter().skip(1) {
            let mut o = JaxOpts::default();
            o.gene_row_order = Some(p.clone());
            with_opts(ctx, f, &o, false, &format!("gene rows {p:?}"));
            with_opts(ctx, f, &o, true, &format!("gene rows {p:?} (transitive loader)"));
        }
        let dp = if nd <= 4 { permutations(nd) } else { rotations_and_reverse(nd) };
        for p in dp.into_iter().skip(1) {
            let mut o = JaxOpts::default();
            o.disease_row_order = Some(p.clone());
            with_opts(ctx, f, &o, false, &format!("disease rows {p:?}"));
        }
        if f.edges.len() > 1 {
            let mut g = f.clone();
            g.edges.reverse();
            with_opts(ctx, &g, &JaxOpts::default(), false, "is_a lines reversed");
        }
        // single distractors
        for d in all_distractors(n) {
            let mut o = JaxOpts::default();
            o.distractors = vec![d.clone()];
            with_opts(ctx, f, &o, false, &format!("distractor {d:?}"));
            if also_transitive(&d) {
                with_opts(ctx, f, &o, true, &format!("distractor {d:?} (transitive loader)"));
            }
        }
        // stanza-layout distractors with the stanzas in reverse order (a child's stanza before its parents'): what a
        // loader makes of ids in tags it should ignore (consider, alt_id, values) may depend on which stanzas it has seen
        for d in [Distractor::ExtraTags, Distractor::TagsBetweenIsA, Distractor::ConsiderNamespaceTags, Distractor::IsATextInValues, Distractor::IsATrailingModifier, Distractor::TagsBeforeName, Distractor::DuplicateIsA] {
            let mut o = JaxOpts::default();
            o.stanza_order = Some((0..n).rev().collect());
            o.distractors = vec![d.clone()];
            with_opts(ctx, f, &o, false, &format!("distractor {d:?}, stanzas reversed"));
        }
        // a NOT twin directly after / before every positive row (NOT rows between the positive rows of one disease)
        with_interleaved_twins(ctx, f, &JaxOpts::default(), false, false, "NOT twins interleaved, after");
        with_interleaved_twins(ctx, f, &JaxOpts::default(), true, false, "NOT twins interleaved, before");
        // every row twice, the copies differing only in the columns a loader ignores (reference, frequency, disease_id
        // ...: the normal case in real files): adjacent copies, and the whole list once more
        if !f.anns.is_empty() {
            let mut o = JaxOpts::default();
            o.distractors = vec![Distractor::GeneFilledColumns, Distractor::HpoaFilledColumns];
            let mut adjacent = f.clone();
            adjacent.anns = f.anns.iter().flat_map(|a| [a.clone(), a.clone()]).collect();
            with_opts(ctx, &adjacent, &o, false, "every row twice (adjacent), other values in the ignored columns");
            let mut appended = f.clone();
            appended.anns.extend(f.anns.iter().cloned());
            with_opts(ctx, &appended, &o, true, "all rows once more at the end, other values in the ignored columns (transitive loader)");
        }
        ctx.sample(|| json!({"family": what, "facts": f.to_json(), "hp.obo": jax::render(f, &JaxOpts::default()).obo}));
    }

    // ---- long lines: header / comment lines around the sizes of I/O buffers (a line is a line, however long)
    {
        let sizes: Vec<usize> = vec![79, 80, 81, 4095, 4096, 4097, 8190, 8191, 8192, 8193, 8194, 16_384, 16_385, 65_536, 100_000];
        let pick: Vec<&(Facts, String)> = family.iter().filter(|(f, _)| f.anns.iter().any(|a| a.kind == Kind::Gene) && f.anns.iter().any(|a| a.kind != Kind::Gene)).take(3).collect();
        ctx.space("bases/long-lines", &format!("{} base fact sets x gene-file header line / hpoa comment line of {:?} bytes x both loaders", pick.len(), sizes));
        for (f, what) in pick {
            for &len in &sizes {
                if !ctx.take() {
                    continue;
                }
                ctx.state();
                ctx.nontrivial();
                for d in [Distractor::GeneHeaderLong(len), Distractor::HpoaCommentLong(len)] {
                    let mut o = JaxOpts::default();
                    o.distractors = vec![d.clone()];
                    with_opts(ctx, f, &o, false, &format!("{d:?}"));
                    with_opts(ctx, f, &o, true, &format!("{d:?} (transitive loader)"));
                }
                ctx.sample(|| json!({"family": what, "line_bytes": len}));
            }
        }
    }
    // ---- one base fact set (three plain terms, two genes with rows, OMIM and ORPHA records) for the value spaces below
    // (five value spaces hang on it: a family that has no such member is a machinery failure, not 1 300 cases less)
    let base: Option<Facts> = Some(
        family
        .iter()
        .find(|(f, _)| {
            f.terms.len() == 3
                && f.edges.len() >= 2
                && f.terms.iter().all(|t| !t.obsolete && t.replacement.is_none() && !t.name.is_empty())
                && [11u32, 22].iter().all(|g| f.anns.iter().any(|a| a.kind == Kind::Gene && a.id == *g))
                && [Kind::Omim, Kind::Orpha].iter().all(|k| f.anns.iter().any(|a| a.kind == *k))
        })
        .map(|(f, _)| f.clone())
        .expect("C09: the family has no base fact set (three plain terms, genes 11 and 22 with rows, an OMIM and an ORPHA record) for the value spaces"),
    );
    let builder_differential = |ctx: &mut Ctx, g: &Facts, jobs: &Obs, what: &str| {
        ctx.transitions(g.n_steps());
        match drive::build(g, Mode::Defaults).map(|b| Obs::of(&b)) {
            Ok(Ok(bobs)) => {
                ctx.exec();
                same_up_to_rounding(ctx, &bobs, jobs, "from_standard vs Builder", &|| json!({"facts": g.to_json(), "variant": what}));
            }
            _ => ctx.bump("skipped: differential partner not available (Builder refused the facts or its read API is inconsistent; C15's subject)", 1),
        }
    };
    // ---- release dates: the data-version line is text, every digit position takes every kind of value
    if let Some(base) = &base {
        let dates = release_dates();
        ctx.space("bases/release-dates", &format!("one base fact set x {} release dates (2024: every month x days 1, 9, 10, 11, 19, 20, 21, 28, 29, 30, 31 where they exist; years 1, 9, 10, 99, 100, 999, 1000, 1999, 2000, 2022, 2023, 9999 x 01-01, 10-10, 12-31; five real release days) x header layouts (data-version on line 2; three other lines before it; extra lines after it) x both loaders", dates.len()));
        for v in dates {
            if !ctx.take() {
                continue;
            }
            ctx.state();
            ctx.nontrivial();
            let mut g = base.clone();
            g.version = v;
            for ds in [vec![], vec![Distractor::HeaderLinesBeforeDataVersion], vec![Distractor::ExtraHeaderLines], vec![Distractor::HeaderLinesBeforeDataVersion, Distractor::ExtraHeaderLines, Distractor::NoTrailingNewline]] {
                let mut o = JaxOpts::default();
                o.distractors = ds;
                with_opts(ctx, &g, &o, false, &format!("release {v:?}"));
                with_opts(ctx, &g, &o, true, &format!("release {v:?} (transitive loader)"));
            }
            ctx.sample(|| json!({"release": format!("{:04}-{:02}-{:02}", v.0, v.1, v.2)}));
        }
    }
    // ---- term ids across the 7-digit range: the id table has 10^7 slots; ids next to its end and next to the
    // block sizes a growing table would use (2^12, 2^16, 2^20) in every position of the stanza order
    if let Some(base) = &base {
        let border: [u32; 14] = [2, 4095, 4096, 4097, 8192, 65_535, 65_536, 1_048_575, 1_048_576, 1_048_577, 5_000_000, 8_388_608, 9_999_998, 9_999_999];
        ctx.space("bases/term-ids-over-the-whole-range", &format!("one base fact set + 14 leaf terms with the ids {border:?} below HP:0000118, each with a gene row and an OMIM row; stanza order = every rotation of the ascending id list and the descending list; both loaders"));
        for rot in 0..=border.len() {
            if !ctx.take() {
                continue;
            }
            ctx.state();
            ctx.nontrivial();
            let mut order: Vec<u32> = border.to_vec();
            if rot == border.len() {
                order.reverse();
            } else {
                order.rotate_left(rot);
            }
            let mut g = base.clone();
            for (i, id) in order.iter().enumerate() {
                if g.terms.iter().any(|t| t.id == *id) {
                    continue;
                }
                g.terms.push(Facts::term(*id, &format!("Leaf {id}")));
                g.edges.push((*id, 118));
                g.anns.push(Facts::ann(Kind::Gene, 5000 + i as u32, &format!("BG{i}"), Some(*id)));
                g.anns.push(Facts::ann(Kind::Omim, 700_000 + *id % 1000, &format!("Border disease {id}"), Some(*id)));
            }
            assert!(g.terms.iter().any(|t| t.id == 118), "C09: the base fact set has no HP:0000118");
            with_opts(ctx, &g, &JaxOpts::default(), false, &format!("stanza order {order:?}"));
            with_opts(ctx, &g, &JaxOpts::default(), true, &format!("stanza order {order:?} (transitive loader)"));
            ctx.sample(|| json!({"stanza_order": order}));
        }
    }
    // ---- record ids over their whole range: on the text path the three id types are parsed from decimal text by three
    // separate pieces of code; the ids of the other spaces stay below 5014 (genes), 81 (ORPHA) and at 6xx xxx (OMIM)
    if let Some(base) = &base {
        // ids as they occur in releases (NCBI gene ids have up to nine digits, OMIM and ORPHA numbers up to six) must
        // load; longer ones are legal values of the crate's id types but no JAX file has them: refuse-or-exact
        let gene_ids: [u32; 16] = [1, 9, 10, 255, 256, 65_535, 65_536, 99_999, 16_777_215, 16_777_216, 100_128_545, 999_999_999, 1_000_000_000, 2_147_483_647, 2_147_483_648, u32::MAX];
        let disease_ids: [u32; 14] = [1, 9, 10, 255, 256, 65_535, 65_536, 99_999, 100_000, 999_999, 1_000_000, 16_777_216, 2_147_483_648, u32::MAX];
        ctx.space("bases/record-ids-over-the-whole-range", &format!("one base fact set x one gene with the id in {gene_ids:?} / one OMIM / one ORPHA disease with the id in {disease_ids:?} (up to 9 digits for genes and 6 for diseases: must load; above: refuse-or-exact) x rows as listed / reversed x both loaders; against the model"));
        for kind in [Kind::Gene, Kind::Omim, Kind::Orpha] {
            let ids: &[u32] = if kind == Kind::Gene { &gene_ids } else { &disease_ids };
            for &id in ids {
                if !ctx.take() {
                    continue;
                }
                ctx.state();
                ctx.nontrivial();
                let rid = base.anns.iter().find(|a| a.kind == kind).map(|a| a.id).unwrap();
                let mut g = base.clone();
                g.anns.retain(|a| !(a.kind == kind && a.id == id));
                for a in g.anns.iter_mut().filter(|a| a.kind == kind && a.id == rid) {
                    a.id = id;
                }
                let as_in_releases = if kind == Kind::Gene { id <= 999_999_999 } else { id <= 999_999 };
                let ng = g.anns.iter().filter(|a| a.kind == Kind::Gene).count();
                let nd = g.anns.len() - ng;
                for reversed in [false, true] {
                    let mut o = JaxOpts::default();
                    if reversed {
                        o.gene_row_order = Some((0..ng).rev().collect());
                        o.disease_row_order = Some((0..nd).rev().collect());
                    }
                    for transitive in [false, true] {
                        let what = format!("{} id {id}{}{}", kind.name(), if reversed { ", rows reversed" } else { "" }, if transitive { " (transitive loader)" } else { "" });
                        if as_in_releases {
                            via_jax(ctx, &g, &o, transitive, &what);
                        } else {
                            let lw = Leeway { may_refuse: vec!["a record id with more digits than any release has"], ..Default::default() };
                            with_leeway(ctx, &g, jax::render(&g, &o), &format!("{o:?}"), transitive, &what, &lw);
                        }
                    }
                }
                ctx.sample(|| json!({"kind": kind.name(), "id": id}));
            }
        }
    }
    // ---- NOT twins interleaved with the positive rows, in every order of the disease rows
    {
        let bases: Vec<&(Facts, String)> = family.iter().filter(|(f, _)| [Kind::Omim, Kind::Orpha].iter().all(|k| f.anns.iter().any(|a| a.kind == *k)) && f.terms.len() >= 3).collect();
        let step = (bases.len() / if thorough { 40 } else { 10 }).max(1);
        let bases: Vec<&(Facts, String)> = bases.into_iter().step_by(step).collect();
        ctx.space("bases/not-twins-interleaved", &format!("{} base fact sets x every order of the disease rows (all permutations up to 4 rows, rotations + reverse above) x a NOT-qualified twin directly after | before every positive row x both loaders", bases.len()));
        for (f, what) in bases {
            let nd = f.anns.iter().filter(|a| a.kind != Kind::Gene).count();
            let dp = if nd <= 4 { permutations(nd) } else { rotations_and_reverse(nd) };
            for p in dp {
                if !ctx.take() {
                    continue;
                }
                ctx.state();
                ctx.nontrivial();
                let mut o = JaxOpts::default();
                o.disease_row_order = Some(p.clone());
                for before in [false, true] {
                    for transitive in [false, true] {
                        with_interleaved_twins(ctx, f, &o, before, transitive, &format!("disease rows {p:?}, NOT twins {}", if before { "before" } else { "after" }));
                    }
                }
                ctx.sample(|| json!({"family": what, "disease_rows": p, "phenotype.hpoa": interleave_not_twins(&jax::render(f, &o).hpoa, false)}));
            }
        }
    }
    // ---- record names: gene symbols and disease names are free text between two tabs (or a tab and the line end)
    if let Some(base) = &base {
        let names: Vec<(&str, String)> = vec![
            ("empty", String::new()),
            ("a single blank", " ".into()),
            ("blanks at both ends", " padded ".into()),
            ("leading blank", " x".into()),
            ("trailing blank", "x ".into()),
            ("one non-ASCII letter", "\u{e9}".into()),
            ("non-ASCII inside", "Beh\u{e7}et disease".into()),
            ("the word NOT", "NOT".into()),
            ("colon and blank", "a: b".into()),
            ("OMIM title with its leading number sign", "#154700 MARFAN SYNDROME; MFS".into()),
            ("number sign inside", "Type 1 # 2".into()),
            ("exclamation mark and braces", "Name ! with {braces} [brackets]".into()),
            ("hyphen, comma, digit", "Ehlers-Danlos syndrome, type 4".into()),
            // the placeholder JAX writes for genes without a symbol (and for unknown values in other columns)
            ("a hyphen", "-".into()),
            ("a full stop", ".".into()),
            ("255 bytes", "G".repeat(255)),
            ("256 bytes", "G".repeat(256)),
            ("300 bytes", "a".repeat(300)),
            ("150 two-byte letters", "\u{fc}".repeat(150)),
            ("100 three-byte signs", "\u{20ac}".repeat(100)),
            ("5000 bytes", "long ".repeat(1000)),
        ];
        let layouts: Vec<Vec<Distractor>> = vec![
            vec![],
            vec![Distractor::GeneMinimalColumns, Distractor::HpoaMinimalColumns],
            vec![Distractor::GeneMinimalColumns, Distractor::HpoaMinimalColumns, Distractor::AnnotationFilesNoTrailingNewline],
            vec![Distractor::GeneFilledColumns, Distractor::HpoaFilledColumns],
            vec![Distractor::AnnotationFilesNoTrailingNewline],
        ];
        ctx.space("bases/record-names", &format!("one base fact set x {} names (empty, blanks, padded, non-ASCII, NOT, the placeholder -, punctuation, 255 ... 5000 bytes) given to one gene / OMIM / ORPHA record x its rows in place and as last rows of the file x {} column layouts (full, minimal = name of a gene is the LAST column of phenotype_to_genes.txt, minimal without final newline, filled optional columns, full without final newline) x both loaders; against the model, canonical layout also against the Builder; policy-neutral: an empty or blank name and a gene symbol beyond 255 bytes may be refused, blanks at the ends of a name may be kept or trimmed, the minimal layouts may be refused", names.len(), layouts.len()));
        for (label, name) in &names {
            for kind in [Kind::Gene, Kind::Omim, Kind::Orpha] {
                if !ctx.take() {
                    continue;
                }
                ctx.state();
                ctx.nontrivial();
                let rid = base.anns.iter().find(|a| a.kind == kind).map(|a| a.id).unwrap();
                let mut g = base.clone();
                for a in g.anns.iter_mut() {
                    if a.kind == kind && a.id == rid {
                        a.name = name.clone();
                    }
                }
                let mut g_last = g.clone();
                let (mut mine, others): (Vec<_>, Vec<_>) = g_last.anns.iter().cloned().partition(|a| a.kind == kind && a.id == rid);
                g_last.anns = others;
                g_last.anns.append(&mut mine);
                // the name as a loader that trims fields (or whole lines, as the hpoa parser does today) sees it:
                // nothing in the statement fixes white space at the ends of a name, and JAX data has none
                let mut spellings: Vec<String> = vec![];
                for t in [name.trim(), name.trim_end(), name.trim_start()] {
                    if t != name.as_str() && !spellings.iter().any(|x| x == t) {
                        spellings.push(t.to_string());
                    }
                }
                for (rows, gg) in [("rows in place", &g), ("rows last in the file", &g_last)] {
                    for (li, l) in layouts.iter().enumerate() {
                        let mut o = JaxOpts::default();
                        o.distractors = l.clone();
                        for transitive in [false, true] {
                            let what = format!("{} name {label} ({} bytes), {rows}, layout {l:?}", kind.name(), name.len());
                            let mut lw = leeway_for(gg, &o);
                            if name.trim().is_empty() {
                                // an empty (or, for a trimming loader, blank) column: not a gene symbol / disease name
                                lw.may_refuse.push("empty or blank record name");
                            }
                            for sp in &spellings {
                                let mut alt = (*gg).clone();
                                for a in alt.anns.iter_mut().filter(|a| a.kind == kind && a.id == rid) {
                                    a.name = sp.clone();
                                }
                                lw.alternatives.push(alt);
                            }
                            let obs = if lw.strict() { via_jax(ctx, gg, &o, transitive, &what).map(|x| (x, 0)) } else { with_leeway(ctx, gg, jax::render(gg, &o), &format!("{o:?}"), transitive, &what, &lw).1 };
                            // the Builder keeps a name as it is handed in: compared with the spelling the loader arrived at
                            if let (Some((jobs, which)), 0, false, true, false) = (&obs, li, transitive, rows == "rows in place", name.trim().is_empty()) {
                                let same_facts = if *which == 0 { gg } else { &lw.alternatives[*which - 1] };
                                builder_differential(ctx, same_facts, jobs, &what);
                            }
                        }
                    }
                }
                ctx.sample(|| json!({"kind": kind.name(), "name": label, "bytes": name.len()}));
            }
        }
    }
    // ---- two records of one kind with the same name (two genes with one symbol, two diseases with one name)
    if let Some(base) = &base {
        let mut b2 = base.clone();
        // a second OMIM record with rows (the family has one with rows and a bare one)
        let (t0, t2) = (b2.terms[0].id, b2.terms[2].id);
        b2.anns.insert(1, Facts::ann(Kind::Omim, 600_003, "Disease three", Some(t2)));
        b2.anns.push(Facts::ann(Kind::Omim, 600_003, "Disease three", Some(t0)));
        ctx.space("bases/shared-record-names", "one base fact set x kind (gene, OMIM, ORPHA) x the rows of the two same-named records adjacent / separated by a row of a third record x row order (as listed, reversed) x column layouts (full, minimal, minimal without final newline) x both loaders; against the model and the Builder: two ids are two records whatever they are called");
        for kind in [Kind::Gene, Kind::Omim, Kind::Orpha] {
            for adjacent in [true, false] {
                if !ctx.take() {
                    continue;
                }
                ctx.state();
                ctx.nontrivial();
                let Some(g) = jax::with_shared_name(&b2, kind, adjacent) else {
                    ctx.violation("harness", "base fact set has fewer than two records of a kind with rows", json!({"kind": kind.name()}));
                    continue;
                };
                let ng = g.anns.iter().filter(|a| a.kind == Kind::Gene).count();
                let nd = g.anns.len() - ng;
                for reversed in [false, true] {
                    for l in [vec![], vec![Distractor::GeneMinimalColumns, Distractor::HpoaMinimalColumns], vec![Distractor::GeneMinimalColumns, Distractor::HpoaMinimalColumns, Distractor::AnnotationFilesNoTrailingNewline]] {
                        let mut o = JaxOpts::default();
                        o.distractors = l.clone();
                        if reversed {
                            o.gene_row_order = Some((0..ng).rev().collect());
                            o.disease_row_order = Some((0..nd).rev().collect());
                        }
                        for transitive in [false, true] {
                            let what = format!("two {} records with one name, rows {}{}, layout {l:?}", kind.name(), if adjacent { "adjacent" } else { "separated by a row of a third record" }, if reversed { ", files written bottom-up" } else { "" });
                            let obs = with_opts(ctx, &g, &o, transitive, &what);
                            if let (Some(jobs), true, false, false) = (&obs, l.is_empty(), transitive, reversed) {
                                builder_differential(ctx, &g, jobs, &what);
                            }
                        }
                    }
                }
                ctx.sample(|| json!({"kind": kind.name(), "adjacent": adjacent, "facts": g.to_json()}));
            }
        }
    }
    // ---- pairs of distractors on base fact sets that have every record kind
    let bases: Vec<&(Facts, String)> = family.iter().filter(|(f, _)| [Kind::Gene, Kind::Omim, Kind::Orpha].iter().all(|k| f.anns.iter().any(|a| a.kind == *k)) && f.terms.len() >= 3).collect();
    let step = (bases.len() / if thorough { 40 } else { 10 }).max(1);
    let bases: Vec<&(Facts, String)> = bases.into_iter().step_by(step).collect();
    ctx.space("bases/pairs-of-distractors", &format!("{} base fact sets x all {} unordered pairs of distractors x both loaders", bases.len(), { let n = all_distractors(3).len(); n * (n - 1) / 2 }));
    for (f, what) in bases {
        let ds = all_distractors(f.terms.len());
        for i in 0..ds.len() {
            for j in i + 1..ds.len() {
                if !ctx.take() {
                    continue;
                }
                ctx.state();
                ctx.nontrivial();
                let mut o = JaxOpts::default();
                o.distractors = vec![ds[i].clone(), ds[j].clone()];
                // two gene headers / two typedef positions at once are fine (first header wins, two Typedef stanzas)
                with_opts(ctx, f, &o, false, &format!("distractors {:?} + {:?}", ds[i], ds[j]));
                with_opts(ctx, f, &o, true, &format!("distractors {:?} + {:?} (transitive loader)", ds[i], ds[j]));
                ctx.sample(|| json!({"family": what, "distractors": format!("{:?} + {:?}", ds[i], ds[j]), "phenotype.hpoa": jax::render(f, &o).hpoa}));
            }
        }
    }
    jax::cleanup();
}
