//! C09 - JAX text loaders build exactly the ontology the three files describe.

use super::common::{format_family, via_jax};
use crate::ctx::Ctx;
use crate::drive;
use crate::encode::{self, EncOpts};
use crate::jax::{self, Distractor, JaxOpts};
use crate::model::{Facts, Kind, Mode};
use crate::obs::Obs;
use crate::space::{permutations, rotations_and_reverse};
use serde_json::json;

fn all_distractors(n_terms: usize) -> Vec<Distractor> {
    vec![
        Distractor::NotRowOmimExisting,
        Distractor::NotRowOmimOnly,
        Distractor::NotRowOrphaExisting,
        Distractor::NotRowOrphaOnly,
        Distractor::HpoaComments,
        Distractor::HpoaColumnHeader,
        Distractor::HpoaCommentMiddle,
        Distractor::DecipherRow,
        Distractor::GeneHeader(1),
        Distractor::GeneHeader(2),
        Distractor::Typedef(0),
        Distractor::Typedef(1),
        Distractor::Typedef(n_terms),
        Distractor::GeneTrailingColumns,
        Distractor::GeneMinimalColumns,
        Distractor::ExtraTags,
        Distractor::TagsBetweenIsA,
        Distractor::ExplicitNotObsolete,
        Distractor::MissingDataVersion,
        Distractor::ExtraHeaderLines,
        Distractor::NoTrailingNewline,
        Distractor::TrailingBlankLines,
        Distractor::HpoaFilledColumns,
        Distractor::HpoaMinimalColumns,
        Distractor::NoHeaderBlock,
        Distractor::TagsBeforeName,
        Distractor::GeneHeaderLong(20_000),
        Distractor::HpoaCommentLong(20_000),
        Distractor::IsATrailingModifier,
    ]
}

/// facts as the text formats can express them (no bare records, no empty names)
fn textual(f: &Facts) -> Facts {
    let mut t = f.clone();
    t.anns.retain(|a| a.term.is_some());
    for x in t.terms.iter_mut() {
        if x.name.is_empty() {
            x.name = "n".into();
        }
    }
    t
}

fn with_opts(ctx: &mut Ctx, f: &Facts, o: &JaxOpts, transitive: bool, what: &str) -> Option<Obs> {
    let mut g = f.clone();
    if o.has(&Distractor::MissingDataVersion) || o.has(&Distractor::NoHeaderBlock) {
        g.version = (0, 0, 0);
        // render() leaves the line out; the expectation is version 0000-00-00
    }
    if o.has(&Distractor::NoHeaderBlock) {
        // a loader may insist on a header (an error is tolerated); if it loads the file, every stanza counts
        let rendered = jax::render(&g, o);
        return match jax::load(&rendered, transitive) {
            Ok(Ok(ont)) => {
                let r = crate::model::RefOnt::derive(&g);
                ctx.transitions(g.n_steps());
                drive::check_against_model(ctx, &ont, &r, Mode::Defaults, if transitive { "jax transitive, no header block" } else { "jax, no header block" }, &|| json!({"facts": g.to_json(), "order": what, "hp.obo": rendered.obo}))
            }
            Ok(Err(_)) => None,
            Err(p) => {
                ctx.exec();
                ctx.violation("Ontology::from_standard", "[jax, no header block] panics", json!({"facts": g.to_json(), "observed": p, "hp.obo": rendered.obo}));
                None
            }
        };
    }
    via_jax(ctx, &g, o, transitive, what)
}

pub fn run(ctx: &mut Ctx) {
    let thorough = ctx.tier.thorough();
    ctx.rule = "case = one fact set (labelled DAG over HP:1, HP:118 + <= 2 terms, flag variant, record pattern) rendered as JAX files: all stanza orders, all gene-row and disease-row orders (<= 4 rows, rotations above), every single distractor, both loaders; plus all pairs of distractors on a set of base fact sets; differential against the Builder-built and binary-loaded ontology; distinct by construction; non-trivial = fact set with records of at least two kinds".into();
    ctx.assumptions = vec![
        "only constructs occurring in JAX releases are generated (is_a lines carry the ' ! name' comment, stanzas are separated by one blank line, the header starts with format-version: 1.2)".into(),
        "records without any term cannot be expressed in the text formats".into(),
        "release years have four digits".into(),
    ];
    let family: Vec<(Facts, String)> = format_family(if thorough { 4 } else { 4 }, if thorough { 1 } else { 6 }).into_iter().map(|(f, w)| (textual(&f), w)).collect();
    // term names around and beyond the 255-byte limit of the BINARY format - the text format has no such limit
    let mut family = family;
    if let Some((base, _)) = family.iter().find(|(f, _)| f.terms.len() == 3 && f.anns.iter().any(|a| a.kind == Kind::Gene) && f.terms.iter().all(|t| !t.obsolete && t.replacement.is_none())).cloned() {
        for (len, unit) in [(255usize, "a"), (256, "a"), (300, "a"), (1000, "a"), (128, "\u{e9}"), (150, "\u{e9}"), (86, "\u{20ac}")] {
            let mut f = base.clone();
            f.terms[2].name = unit.repeat(len);
            family.push((f, format!("a term name of {len} x {unit:?} ({} bytes)", len * unit.len())));
        }
    }
    ctx.space("family/orders-and-single-distractors", &format!("{} fact sets x (all stanza orders + gene-row orders + disease-row orders + is_a lines reversed + 29 single distractors) x from_standard, a subset also through from_standard_transitive; differential against Builder and binary", family.len()));
    for (f, what) in &family {
        if !ctx.take() {
            continue;
        }
        ctx.state();
        let kinds_present = [Kind::Gene, Kind::Omim, Kind::Orpha].iter().filter(|k| f.anns.iter().any(|a| a.kind == **k)).count();
        if kinds_present >= 2 {
            ctx.nontrivial();
        }
        let n = f.terms.len();
        let base_obs = with_opts(ctx, f, &JaxOpts::default(), false, "canonical");
        with_opts(ctx, f, &JaxOpts::default(), true, "canonical (transitive loader)");
        // differential: Builder (no flags) and binary
        if let Some(jobs) = &base_obs {
            if f.terms.iter().all(|t| !t.obsolete && t.replacement.is_none()) {
                ctx.transitions(f.n_steps());
                match drive::build(f, Mode::Defaults) {
                    Ok(b) => match Obs::of(&b) {
                        Ok(bobs) => {
                            ctx.exec();
                            drive::check_same(ctx, &bobs, jobs, "from_standard vs Builder", &|| json!({"facts": f.to_json(), "family": what}));
                        }
                        Err(i) => ctx.violation(&i.site, "[builder] read API inconsistent", json!({"facts": f.to_json(), "observed": i.what})),
                    },
                    Err(e) => ctx.violation("Builder", "[builder] construction fails on valid facts", json!({"facts": f.to_json(), "observed": e})),
                }
            }
            if f.terms.iter().all(|t| t.name.len() <= 255) {
                ctx.transitions(f.n_steps());
                match drive::from_bytes(&encode::encode(f, &EncOpts::v(3))) {
                    Ok(Ok(b)) => match Obs::of(&b) {
                        Ok(bobs) => {
                            ctx.exec();
                            drive::check_same(ctx, &bobs, jobs, "from_standard vs from_bytes(v3)", &|| json!({"facts": f.to_json(), "family": what}));
                        }
                        Err(i) => ctx.violation(&i.site, "[binary] read API inconsistent", json!({"facts": f.to_json(), "observed": i.what})),
                    },
                    other => ctx.violation("Ontology::from_bytes", "rejects a file laid out as documented", json!({"facts": f.to_json(), "observed": format!("{:?}", other.map(|r| r.map(|_| ())))})),
                }
            }
        }
        // stanza orders
        for p in permutations(n).into_iter().skip(1) {
            let mut o = JaxOpts::default();
            o.stanza_order = Some(p.clone());
            with_opts(ctx, f, &o, false, &format!("stanzas {p:?}"));
        }
        // no header block: whichever stanza comes first, it is a stanza
        for p in permutations(n) {
            let mut o = JaxOpts::default();
            o.stanza_order = Some(p.clone());
            o.distractors = vec![Distractor::NoHeaderBlock];
            with_opts(ctx, f, &o, false, &format!("no header block, stanzas {p:?}"));
        }
        // row orders
        let ng = f.anns.iter().filter(|a| a.kind == Kind::Gene).count();
        let nd = f.anns.len() - ng;
        let gp = if ng <= 4 { permutations(ng) } else { rotations_and_reverse(ng) };
        for p in gp.into_iter().skip(1) {
            let mut o = JaxOpts::default();
            o.gene_row_order = Some(p.clone());
            with_opts(ctx, f, &o, false, &format!("gene rows {p:?}"));
            with_opts(ctx, f, &o, true, &format!("gene rows {p:?} (transitive loader)"));
        }
        let dp = if nd <= 4 { permutations(nd) } else { rotations_and_reverse(nd) };
        for p in dp.into_iter().skip(1) {
            let mut o = JaxOpts::default();
            o.disease_row_order = Some(p.clone());
            with_opts(ctx, f, &o, false, &format!("disease rows {p:?}"));
        }
        if f.edges.len() > 1 {
            let mut g = f.clone();
            g.edges.reverse();
            with_opts(ctx, &g, &JaxOpts::default(), false, "is_a lines reversed");
        }
        // single distractors
        for d in all_distractors(n) {
            let mut o = JaxOpts::default();
            o.distractors = vec![d.clone()];
            with_opts(ctx, f, &o, false, &format!("distractor {d:?}"));
            if matches!(d, Distractor::GeneHeader(_) | Distractor::GeneTrailingColumns | Distractor::GeneMinimalColumns | Distractor::Typedef(_) | Distractor::ExtraTags | Distractor::TagsBetweenIsA | Distractor::ExplicitNotObsolete | Distractor::HpoaFilledColumns | Distractor::HpoaMinimalColumns | Distractor::NoHeaderBlock | Distractor::TagsBeforeName | Distractor::GeneHeaderLong(_) | Distractor::HpoaCommentLong(_) | Distractor::IsATrailingModifier) {
                with_opts(ctx, f, &o, true, &format!("distractor {d:?} (transitive loader)"));
            }
        }
        ctx.sample(|| json!({"family": what, "facts": f.to_json(), "hp.obo": jax::render(f, &JaxOpts::default()).obo}));
    }

    // ---- long lines: header / comment lines around the sizes of I/O buffers (a line is a line, however long)
    {
        let sizes: Vec<usize> = vec![79, 80, 81, 4095, 4096, 4097, 8190, 8191, 8192, 8193, 8194, 16_384, 16_385, 65_536, 100_000];
        let pick: Vec<&(Facts, String)> = family.iter().filter(|(f, _)| f.anns.iter().any(|a| a.kind == Kind::Gene) && f.anns.iter().any(|a| a.kind != Kind::Gene)).take(3).collect();
        ctx.space("bases/long-lines", &format!("{} base fact sets x gene-file header line / hpoa comment line of {:?} bytes x both loaders", pick.len(), sizes));
        for (f, what) in pick {
            for &len in &sizes {
                if !ctx.take() {
                    continue;
                }
                ctx.state();
                ctx.nontrivial();
                for d in [Distractor::GeneHeaderLong(len), Distractor::HpoaCommentLong(len)] {
                    let mut o = JaxOpts::default();
                    o.distractors = vec![d.clone()];
                    with_opts(ctx, f, &o, false, &format!("{d:?}"));
                    with_opts(ctx, f, &o, true, &format!("{d:?} (transitive loader)"));
                }
                ctx.sample(|| json!({"family": what, "line_bytes": len}));
            }
        }
    }
    // ---- pairs of distractors on base fact sets that have every record kind
    let bases: Vec<&(Facts, String)> = family.iter().filter(|(f, _)| [Kind::Gene, Kind::Omim, Kind::Orpha].iter().all(|k| f.anns.iter().any(|a| a.kind == *k)) && f.terms.len() >= 3).collect();
    let step = (bases.len() / if thorough { 40 } else { 10 }).max(1);
    let bases: Vec<&(Facts, String)> = bases.into_iter().step_by(step).collect();
    ctx.space("bases/pairs-of-distractors", &format!("{} base fact sets x all 406 unordered pairs of distractors x both loaders", bases.len()));
    for (f, what) in bases {
        let ds = all_distractors(f.terms.len());
        for i in 0..ds.len() {
            for j in i + 1..ds.len() {
                if !ctx.take() {
                    continue;
                }
                ctx.state();
                ctx.nontrivial();
                let mut o = JaxOpts::default();
                o.distractors = vec![ds[i].clone(), ds[j].clone()];
                // two gene headers / two typedef positions at once are fine (first header wins, two Typedef stanzas)
                with_opts(ctx, f, &o, false, &format!("distractors {:?} + {:?}", ds[i], ds[j]));
                with_opts(ctx, f, &o, true, &format!("distractors {:?} + {:?} (transitive loader)", ds[i], ds[j]));
                ctx.sample(|| json!({"family": what, "distractors": format!("{:?} + {:?}", ds[i], ds[j]), "phenotype.hpoa": jax::render(f, &o).hpoa}));
            }
        }
    }
    jax::cleanup();
}
