//! C14 - sub-ontologies keep shortest leaf-root chains, induced links, phenotype links.

use super::c01::self_consistent;
use super::common::family_e_opt;
use crate::ctx::{guard, Ctx};
use crate::drive;
use crate::encode::{self, EncOpts};
use crate::model::{Facts, Mode, RefOnt};
use crate::obs::Obs;
use hpo::Ontology;
use serde_json::{json, Value};
use std::collections::{BTreeMap, BTreeSet};

/// `src.sub_ontology(root, leaves)` under catch_unwind. The leaves are handed over in one of four shapes, chosen by
/// the arguments: a Vec, a lazy exact-size iterator, a filtering adapter over all terms of the ontology and `&HpoSet`
/// (the last two hand the collection over in id order and without duplicates - a collection of leaves is a set).
fn sub(src: &Ontology, root: u32, leaves: &[u32]) -> Result<Result<Ontology, String>, String> {
    use hpo::annotations::AnnotationId;
    let shape = (root as usize + leaves.len() + leaves.iter().map(|l| *l as usize).sum::<usize>()) % 4;
    guard(|| {
        let r = src.hpo(root).unwrap();
        match shape {
            0 => src.sub_ontology(r, leaves.iter().map(|l| src.hpo(*l).unwrap()).collect::<Vec<_>>()),
            1 => src.sub_ontology(r, leaves.iter().map(|l| src.hpo(*l).unwrap())),
            2 => src.sub_ontology(r, src.iter().filter(|t| leaves.contains(&t.id().as_u32()))),
            _ => {
                let mut g = hpo::term::HpoGroup::new();
                for l in leaves {
                    g.insert(*l);
                }
                let set = hpo::HpoSet::new(src, g);
                src.sub_ontology(r, &set)
            }
        }
        .map_err(|e| e.to_string())
    })
}

pub type Up = BTreeMap<u32, BTreeMap<u32, usize>>;

/// Some leaf has more than one shortest parent chain to root: which of them is kept is not fixed by the statement
/// (a leaf with a unique chain has exactly one term per distance 0..=d on its shortest chains).
fn has_ties(up: &Up, root: u32, leaves: &[u32]) -> bool {
    leaves.iter().any(|l| match up[l].get(&root) {
        None => false,
        Some(c) => up.keys().filter(|t| matches!((up[l].get(*t), up[*t].get(&root)), (Some(a), Some(b)) if a + b == *c)).count() > c + 1,
    })
}

/// `own.sub_ontology` called with root / leaf handles taken from `other` (same terms and links): the result
/// must be the one obtained with `own`'s handles - or, when a leaf has several shortest chains, any result the
/// statement admits.
pub fn foreign_handles(ctx: &mut Ctx, own: &Ontology, other: &Ontology, f: &Facts, root: u32, leaves: &[u32], what: &str) {
    ctx.exec();
    ctx.validated();
    ctx.transitions(2);
    let a = sub(own, root, leaves);
    let b = guard(|| own.sub_ontology(other.hpo(root).unwrap(), leaves.iter().map(|l| other.hpo(*l).unwrap()).collect::<Vec<_>>()).map_err(|e| e.to_string()));
    let same = match (&a, &b) {
        (Ok(Ok(x)), Ok(Ok(y))) => match (Obs::of(x), Obs::of(y)) {
            (Ok(ox), Ok(oy)) => oy.diff(&ox, true).map(|d| format!("{} {} {}", d.0, d.1, d.2)),
            _ => Some("the result cannot be walked".to_string()),
        },
        (Ok(Err(_)), Ok(Err(_))) => None,
        // refusing handles of another instance is a legitimate policy; a DIFFERENT ontology is not
        (Ok(Ok(_)), Ok(Err(_))) | (Ok(Ok(_)), Err(_)) => {
            ctx.bump("refused: sub_ontology given handles of another instance", 1);
            None
        }
        _ => Some(format!("own handles: {:?}; foreign handles: {:?}", a.as_ref().map(|r| r.as_ref().map(|_| ())), b.as_ref().map(|r| r.as_ref().map(|_| ())))),
    };
    if let Some(d) = same {
        let case = || json!({"family": what, "source": f.to_json(), "root": root, "leaves": leaves, "handles_from": "an instance with the same terms and links but no records", "difference": d});
        // two different results are both fine when the statement admits both: some leaf has several shortest chains
        // (which one is kept may depend on anything); the second result is then judged on its own
        if matches!((&a, &b), (Ok(Ok(_)), Ok(Ok(_)))) {
            let r = RefOnt::derive(f);
            let up: Up = r.terms.keys().map(|i| (*i, r.up_distances(*i))).collect();
            if has_ties(&up, root, leaves) {
                let is_mod = |t: u32| own.hpo(t).map(|x| x.is_modifier()).unwrap_or(false);
                check_result(ctx, b, &r, &is_mod, &up, root, leaves, &case, "[handles of another instance] ");
                return;
            }
        }
        ctx.violation("Ontology::sub_ontology", "result depends on which Ontology instance the root / leaf handles were taken from", case());
    }
}

/// The statement's demands on one result: Err <=> a leaf outside root's subtree; contains root and leaves; only terms
/// on shortest chains; names and flags copied; induced links; original distances; records kept iff directly annotated to
/// a retained non-modifier term, with the retained subset of their terms; consistent with its own facts.
/// Returns the result and its observation when all of it could be judged.
#[allow(clippy::too_many_arguments)]
fn check_result(ctx: &mut Ctx, res: Result<Result<Ontology, String>, String>, r: &RefOnt, is_mod: &dyn Fn(u32) -> bool, up: &Up, root: u32, leaves: &[u32], case: &dyn Fn() -> Value, tag: &str) -> Option<(Ontology, Obs)> {
    let site = "Ontology::sub_ontology";
    let valid = leaves.iter().all(|l| *l == root || r.terms[l].ancestors.contains(&root));
    let s = match (res, valid) {
        (Err(p), _) => {
            ctx.violation(site, &format!("{tag}panics"), json!({"case": case(), "observed": p}));
            return None;
        }
        (Ok(Err(_)), false) => return None,
        // (a call whose RESULT would hold two records of a kind with one name may be refused - that treatment is open;
        // a call whose result keeps at most one record per name has nothing open about it, whatever else the source holds)
        (Ok(Err(_)), true) if tag == OPEN_SOURCE && result_has_same_named_records(r, is_mod, up, root, leaves) => {
            ctx.bump("refused: sub_ontology whose result would hold two records of a kind with one name", 1);
            return None;
        }
        (Ok(Err(e)), true) => {
            ctx.violation(site, &format!("{tag}refused although every leaf is root or a descendant of root"), json!({"case": case(), "observed": e}));
            return None;
        }
        (Ok(Ok(_)), false) => {
            ctx.violation(site, &format!("{tag}accepted although a leaf is neither root nor a descendant of root"), json!({"case": case()}));
            return None;
        }
        (Ok(Ok(s)), true) => s,
    };
    let obs = match Obs::of(&s) {
        Ok(o) => o,
        Err(i) => {
            ctx.violation(&i.site, &format!("{tag}[sub_ontology] read API inconsistent or panicking"), json!({"case": case(), "observed": i.what}));
            return None;
        }
    };
    let retained: BTreeSet<u32> = obs.terms.iter().map(|t| t.id).collect();
    // contains root and every leaf
    if !retained.contains(&root) || leaves.iter().any(|l| !retained.contains(l)) {
        ctx.violation(site, &format!("{tag}result does not contain root and every leaf"), json!({"case": case(), "retained": retained}));
        return None;
    }
    // only terms on a shortest chain from some leaf to root
    for t in &retained {
        let on_chain = up.contains_key(t)
            && leaves.iter().any(|l| match (up[l].get(t), up[t].get(&root), up[l].get(&root)) {
                (Some(a), Some(b), Some(c)) => a + b == *c,
                _ => false,
            });
        if !on_chain {
            ctx.violation(site, &format!("{tag}retains a term that lies on no shortest chain from a leaf to root"), json!({"case": case(), "retained": retained, "term": t}));
            return None;
        }
    }
    // names and flags copied, induced parent links
    for t in &obs.terms {
        let st = &r.terms[&t.id];
        // a replacement whose target is not part of the result may be kept or cleared (the statement says "copies
        // names and flags"; a result that hands out no id it does not contain is as defensible as a verbatim copy)
        let replacement_ok = match st.replacement {
            Some(x) if !retained.contains(&x) => t.replacement == Some(x) || t.replacement.is_none(),
            other => t.replacement == other,
        };
        if t.name != st.name || t.obsolete != st.obsolete || !replacement_ok {
            ctx.violation(site, &format!("{tag}name, obsolete flag or replacement of a retained term is not copied"), json!({"case": case(), "term": t.id, "observed": [json!(t.name), json!(t.obsolete), json!(t.replacement)]}));
            return None;
        }
        let want: Vec<u32> = st.parents.iter().copied().filter(|p| retained.contains(p)).collect();
        if t.parents != want {
            ctx.violation(site, &format!("{tag}parent links are not exactly the original links between retained terms"), json!({"case": case(), "term": t.id, "observed": t.parents, "expected": want}));
            return None;
        }
    }
    // each leaf reaches root at its original distance (a complete shortest chain is retained)
    let mut sf = Facts::default();
    for t in &obs.terms {
        sf.terms.push(Facts::term(t.id, &t.name));
        for p in &t.parents {
            sf.edges.push((t.id, *p));
        }
    }
    let sr = RefOnt::derive(&sf);
    for l in leaves {
        let d_sub = sr.up_distances(*l).get(&root).copied();
        let d_src = up[l].get(&root).copied();
        if d_sub != d_src {
            ctx.violation(site, &format!("{tag}a leaf does not reach root at its original distance"), json!({"case": case(), "leaf": l, "distance_in_result": d_sub, "distance_in_source": d_src}));
            return None;
        }
    }
    // records: kept iff directly annotated to a retained non-modifier term; then exactly the retained subset of its terms
    for k in 0..3 {
        let mut want: BTreeMap<u32, (String, Vec<u32>)> = BTreeMap::new();
        for (id, rec) in &r.recs[k] {
            let keep = rec.terms.iter().any(|t| retained.contains(t) && !is_mod(*t));
            if keep {
                want.insert(*id, (rec.name.clone(), rec.terms.iter().copied().filter(|t| retained.contains(t)).collect()));
            }
        }
        let got: BTreeMap<u32, (String, Vec<u32>)> = obs.recs[k].iter().map(|x| (x.id, (x.name.clone(), x.terms.clone()))).collect();
        if got != want {
            let gk: Vec<u32> = got.keys().copied().collect();
            let wk: Vec<u32> = want.keys().copied().collect();
            let sig = if gk != wk {
                if gk.iter().any(|g| !wk.contains(g)) {
                    "keeps a gene/disease that is not directly annotated to a retained non-modifier term"
                } else {
                    "drops a gene/disease that is directly annotated to a retained non-modifier term"
                }
            } else {
                "a kept gene/disease is not linked to exactly the retained subset of its direct terms"
            };
            ctx.violation(site, &format!("{tag}{sig}"), json!({"case": case(), "kind": crate::model::KINDS[k].name(), "retained": retained, "observed": format!("{got:?}"), "expected": format!("{want:?}")}));
            return None;
        }
    }
    // closure, inheritance, information content on its own facts
    self_consistent(ctx, &s, "sub_ontology", Mode::Minimal, case);
    Some((s, obs))
}

/// tag of `check_result` for sources with same-named records: sub_ontology may refuse a call whose result would hold
/// two of them
const OPEN_SOURCE: &str = "[same-named records] ";

/// Would the result of a valid call hold two records of one kind with the same name? Decided on the input alone: the
/// retained terms are those on a shortest chain from a leaf to root (the sources of the same-named space have three
/// terms - no leaf has two shortest chains; with ties every term on some shortest chain counts, which only widens
/// the excuse), a record is kept iff it is directly annotated to a retained non-modifier term.
fn result_has_same_named_records(r: &RefOnt, is_mod: &dyn Fn(u32) -> bool, up: &Up, root: u32, leaves: &[u32]) -> bool {
    let retained: BTreeSet<u32> = up
        .keys()
        .copied()
        .filter(|t| leaves.iter().any(|l| matches!((up[l].get(t), up[t].get(&root), up[l].get(&root)), (Some(a), Some(b), Some(c)) if a + b == *c)))
        .collect();
    (0..3).any(|k| {
        let mut names: BTreeSet<&str> = BTreeSet::new();
        r.recs[k].values().filter(|rec| rec.terms.iter().any(|t| retained.contains(t) && !is_mod(*t))).any(|rec| !names.insert(rec.name.as_str()))
    })
}

#[allow(clippy::too_many_arguments)]
pub fn check_one(ctx: &mut Ctx, src: &Ontology, r: &RefOnt, mode: Mode, up: &Up, root: u32, leaves: &[u32], case: &dyn Fn() -> Value, custom_roots: Option<&BTreeSet<u32>>) {
    check_one_tagged(ctx, src, r, mode, up, root, leaves, case, custom_roots, "")
}

#[allow(clippy::too_many_arguments)]
fn check_one_tagged(ctx: &mut Ctx, src: &Ontology, r: &RefOnt, mode: Mode, up: &Up, root: u32, leaves: &[u32], case: &dyn Fn() -> Value, custom_roots: Option<&BTreeSet<u32>>, tag: &str) {
    let is_mod = |t: u32| -> bool {
        match custom_roots {
            Some(roots) => r.anc_incl(t).iter().any(|a| roots.contains(a)),
            None => r.is_modifier(t, mode),
        }
    };
    ctx.exec();
    ctx.validated();
    ctx.transitions(1 + leaves.len() as u64);
    let site = "Ontology::sub_ontology";
    let Some((s, obs)) = check_result(ctx, sub(src, root, leaves), r, &is_mod, up, root, leaves, case, tag) else {
        return;
    };
    // fixed point: cutting the result again with the same arguments gives the result - unless some leaf has several
    // shortest chains: which one a call keeps is not fixed, so the second cut is then judged like the first, with the
    // first result as its source
    match sub(&s, root, leaves) {
        Ok(Ok(s2)) => match Obs::of(&s2) {
            Ok(o2) => {
                if let Some((site2, sig, det)) = o2.diff(&obs, true) {
                    if has_ties(up, root, leaves) {
                        let rs = RefOnt::derive(&obs.to_facts((0, 0, 0)));
                        let up_s: Up = rs.terms.keys().map(|i| (*i, rs.up_distances(*i))).collect();
                        // (modifier classification as the first result itself reports it)
                        let mods: BTreeSet<u32> = obs.terms.iter().filter(|t| t.is_modifier).map(|t| t.id).collect();
                        check_result(ctx, Ok(Ok(s2)), &rs, &|t| mods.contains(&t), &up_s, root, leaves, case, "[sub_ontology of the sub_ontology] ");
                    } else {
                        ctx.violation(&site2, &format!("[sub_ontology of the sub_ontology] not a fixed point: {sig}"), json!({"case": case(), "difference": det}));
                    }
                }
            }
            Err(i) => ctx.violation(&i.site, "[sub_ontology of the sub_ontology] read API inconsistent", json!({"case": case(), "observed": i.what})),
        },
        other => ctx.violation(site, "sub_ontology of the sub_ontology with the same arguments fails", json!({"case": case(), "observed": format!("{:?}", other.map(|r| r.map(|_| ())))})),
    }
    ctx.outcome(obs.fingerprint());
}

fn large(ctx: &mut Ctx) {
    let family = crate::props::common::large_family();
    ctx.space("large-structured/roots-x-leaves", &format!("{} large shapes (records on the last terms, the middle and the top; gene 7 / OMIM 7 on every 2nd term, ORPHA 7 on the last; 300 further genes, gene i on term i mod n; without and with custom modifier roots (3rd term; 3rd term + middle)) x roots {{HP:1, HP:118, middle}} x leaf collections {{last}}, {{last, middle}}, {{last two}}, {{every 9th term}}, {{last, last}}", family.len()));
    for (base, what) in &family {
        if !ctx.take() {
            continue;
        }
        ctx.state();
        ctx.nontrivial();
        let mut f = base.clone();
        let ids: Vec<u32> = f.terms.iter().map(|t| t.id).collect();
        let n = ids.len();
        f.anns.push(Facts::ann(crate::model::Kind::Gene, 11, "GENE1", Some(ids[n - 1])));
        f.anns.push(Facts::ann(crate::model::Kind::Gene, 11, "GENE1", Some(ids[n / 2])));
        f.anns.push(Facts::ann(crate::model::Kind::Gene, 22, "GENE2", Some(ids[0])));
        f.anns.push(Facts::ann(crate::model::Kind::Omim, 600_001, "Disease one", Some(ids[n - 2])));
        f.anns.push(Facts::ann(crate::model::Kind::Orpha, 77, "Orpha one", Some(ids[n / 2])));
        f.anns.push(Facts::ann(crate::model::Kind::Orpha, 78, "Orpha two", Some(ids[1])));
        // records with very many direct terms (every 2nd term), a strict non-contiguous part of which is retained;
        // the same numeric id in all three kinds
        for i in (0..n).step_by(2) {
            f.anns.push(Facts::ann(crate::model::Kind::Gene, 7, "SEVEN", Some(ids[i])));
            f.anns.push(Facts::ann(crate::model::Kind::Omim, 7, "Seven (omim)", Some(ids[i])));
        }
        f.anns.push(Facts::ann(crate::model::Kind::Orpha, 7, "Seven (orpha)", Some(ids[n - 1])));
        // many records (more than an 8-bit counter or a small inline container holds): 300 genes, gene i on term
        // i mod n only - kept iff that term is retained and no modifier term, a scattered subset
        for i in 0..300usize {
            f.anns.push(Facts::ann(crate::model::Kind::Gene, 2000 + i as u32, &format!("MANY{i}"), Some(ids[i % n])));
        }
        let r = RefOnt::derive(&f);
        let up: Up = ids.iter().map(|i| (*i, r.up_distances(*i))).collect();
        ctx.transitions(f.n_steps());
        let Ok(mut src) = drive::build(&f, Mode::Minimal) else {
            ctx.violation("Builder", "construction fails on valid facts", json!({"shape": what}));
            continue;
        };
        let last = ids[n - 1];
        let mid = ids[n / 2];
        let collections: Vec<Vec<u32>> = vec![vec![last], vec![last, mid], vec![ids[n - 1], ids[n - 2]], ids.iter().copied().step_by(9).collect(), vec![last, last]];
        for root in [ids[0], ids[1], mid] {
            for leaves in &collections {
                let case = || json!({"shape": what, "n_terms": n, "root": root, "leaves": leaves});
                check_one(ctx, &src, &r, Mode::Minimal, &up, root, leaves, &case, None);
            }
        }
        // the same with custom modifier roots installed: the third term (everything below it is a modifier term
        // with up to hundreds of ancestors), then additionally the middle term
        for roots in [vec![ids[2]], vec![ids[2], mid]] {
            *src.modifier_mut() = hpo::term::HpoGroup::new();
            for x in &roots {
                src.modifier_mut().insert(*x);
            }
            let rs: BTreeSet<u32> = roots.iter().copied().collect();
            for root in [ids[0], ids[1]] {
                for leaves in &collections {
                    let case = || json!({"shape": what, "n_terms": n, "root": root, "leaves": leaves, "custom_modifier_roots": roots});
                    check_one(ctx, &src, &r, Mode::Minimal, &up, root, leaves, &case, Some(&rs));
                }
            }
        }
        ctx.sample(|| json!({"shape": what, "n_terms": n}));
    }
}

/// Sources in which records of one kind share their NAME (two genes SAME, two OMIM and two ORPHA diseases 'Same
/// disease', annotated to different terms, and a bare gene of that name): a record is identified by its id - a
/// re-annotation that goes through names would merge or drop them.
fn same_named(ctx: &mut Ctx) {
    let dags = crate::space::all_dags(3);
    ctx.space("same-named-records/roots-x-leaves", &format!("{} labelled DAGs over [1, 118, 119] x 8 subsets S (the same-named fact sets of C02: genes 11 <- S, 12 <- complement(S), OMIM 1 <- S, 2 <- rot1(S), ORPHA 1 <- rot2(S), 2 <- S) built with defaults through the Builder and the decoder (a Builder or decoder may refuse a second record of a name; a sub_ontology call may refuse only when its result would hold two records of a kind with one name) x every root x all single leaves and ordered pairs", dags.len()));
    for d in &dags {
        for s in 0..8u32 {
            if !ctx.take() {
                continue;
            }
            ctx.state();
            ctx.nontrivial();
            let f = super::c02::same_named_facts(d, s);
            let r = RefOnt::derive(&f);
            let ids: Vec<u32> = f.terms.iter().map(|t| t.id).collect();
            let up: Up = ids.iter().map(|i| (*i, r.up_distances(*i))).collect();
            ctx.transitions(2 * f.n_steps());
            let mut sources: Vec<(Ontology, &str)> = vec![];
            match drive::build(&f, Mode::Defaults) {
                Ok(o) => sources.push((o, "Builder::build_with_defaults")),
                // unique names within a kind is a policy a Builder may have
                Err(e) if e.starts_with("annotate_") => ctx.bump("refused: source with same-named records, by the Builder", 1),
                Err(e) => ctx.violation("Builder", "construction fails on valid facts", json!({"facts": f.to_json(), "observed": e})),
            }
            // (... and one a decoder may have)
            match drive::from_bytes(&encode::encode(&f, &EncOpts::v(3))) {
                Ok(Ok(o)) => sources.push((o, "from_bytes")),
                Ok(Err(_)) => ctx.bump("refused: source with same-named records, by from_bytes", 1),
                Err(p) => ctx.violation("Ontology::from_bytes", "panics on a file laid out as documented (records sharing a name)", json!({"facts": f.to_json(), "observed": p})),
            }
            if sources.is_empty() {
                ctx.bump("skipped: same-named source that no constructor accepted", 1);
            }
            let mut collections: Vec<Vec<u32>> = ids.iter().map(|a| vec![*a]).collect();
            for a in &ids {
                for b in &ids {
                    if a != b {
                        collections.push(vec![*a, *b]);
                    }
                }
            }
            for (src, path) in &sources {
                for &root in &ids {
                    for leaves in &collections {
                        let case = || json!({"source": f.to_json(), "source_constructor": path, "root": root, "leaves": leaves});
                        check_one_tagged(ctx, src, &r, Mode::Defaults, &up, root, leaves, &case, None, OPEN_SOURCE);
                    }
                }
            }
            ctx.sample(|| json!({"dag": d.describe(), "S": crate::space::bits(s, 3)}));
        }
    }
}

pub fn run(ctx: &mut Ctx) {
    let thorough = ctx.tier.thorough();
    // "the result again satisfies the closure, inheritance and information-content properties" - not the ascending
    // order of the id lists (C12's statement): the lists of a result are compared as sets
    ctx.rule = "case = one source ontology of family E (built with defaults from bytes, and without flags also build_minimal via the Builder) with every root and every leaf collection in the bound (all single leaves, all ordered pairs incl. duplicates; all subsets when n <= 5; thorough: all multisets of size 3); distinct by construction; non-trivial = source with a term reachable from a leaf by chains of different length or with a record on a modifier term".into();
    ctx.assumptions = vec![
        "modifier classification is taken from the source ontology (is_modifier); a build_minimal source has no modifier roots".into(),
        "the result's release version and categories are not specified and not compared".into(),
        "which of several shortest chains of a leaf is retained is not specified: exact agreement of two calls (fixed point, handles of another instance) is demanded only when every leaf has a single shortest chain; otherwise the second result is judged by the same oracle on its own".into(),
        "a replacement id whose target is not retained may be copied or cleared; the leaves are a collection in the sense of a set (handed over as Vec, lazy iterator, filtering adapter, &HpoSet in rotation)".into(),
    ];
    let kmax = if thorough { 4 } else { 3 };
    let family = family_e_opt(1, kmax, &[200, 7, 300, 150], true);
    let stride = if thorough { 1 } else { 2 };
    ctx.space("family-E/roots-x-leaf-collections", &format!("{} source ontologies (every {stride}th of family E, k <= {kmax}) x every root x leaf collections", family.len().div_ceil(stride)));
    for (idx, (f, what)) in family.iter().enumerate() {
        if idx % stride != 0 {
            continue;
        }
        if !ctx.take() {
            continue;
        }
        ctx.state();
        let r = RefOnt::derive(f);
        let ids: Vec<u32> = f.terms.iter().map(|t| t.id).collect();
        let n = ids.len();
        let up: Up = ids.iter().map(|i| (*i, r.up_distances(*i))).collect();
        let modifier_records = (0..3).any(|k| r.recs[k].values().any(|rec| rec.terms.iter().any(|t| r.is_modifier(*t, Mode::Defaults))));
        if modifier_records || f.edges.len() > n {
            ctx.nontrivial();
        }
        let has_flag = f.terms.iter().any(|t| t.obsolete || t.replacement.is_some());
        let mut sources: Vec<(Ontology, Mode, &str)> = vec![];
        ctx.transitions(f.n_steps());
        match drive::from_bytes(&encode::encode(f, &EncOpts::v(3))) {
            Ok(Ok(o)) => sources.push((o, Mode::Defaults, "from_bytes (defaults)")),
            other => {
                ctx.violation("Ontology::from_bytes", "rejects a file laid out as documented", json!({"facts": f.to_json(), "observed": format!("{:?}", other.map(|r| r.map(|_| ())))}));
                continue;
            }
        }
        if !has_flag {
            match drive::build(f, Mode::Minimal) {
                Ok(o) => sources.push((o, Mode::Minimal, "Builder::build_minimal")),
                Err(e) => ctx.violation("Builder", "construction fails on valid facts", json!({"family": what, "facts": f.to_json(), "observed": e})),
            }
        }
        // leaf collections
        let mut collections: Vec<Vec<u32>> = vec![];
        for a in &ids {
            collections.push(vec![*a]);
        }
        for a in &ids {
            for b in &ids {
                collections.push(vec![*a, *b]);
            }
        }
        if n <= 5 {
            for mask in 1u32..(1 << n) {
                if mask.count_ones() >= 3 {
                    collections.push(crate::space::bits(mask, n).iter().map(|i| ids[*i]).collect());
                }
            }
        } else {
            collections.push(ids.clone());
            let mut rev = ids.clone();
            rev.reverse();
            collections.push(rev);
        }
        if thorough {
            for a in 0..n {
                for b in a..n {
                    for c in b..n {
                        collections.push(vec![ids[c], ids[a], ids[b]]);
                    }
                }
            }
        }
        for (src, mode, path) in &sources {
            for &root in &ids {
                for leaves in &collections {
                    let case = || json!({"family": what, "source": f.to_json(), "source_constructor": path, "root": root, "leaves": leaves});
                    check_one(ctx, src, &r, *mode, &up, root, leaves, &case, None);
                }
            }
        }
        // root and leaves named through handles of ANOTHER Ontology instance (the same terms and links, no
        // records at all): a sub-ontology is cut out of the ontology the method is called on - the handles
        // only say which terms are meant
        // (idx % 4 == 2 selects sources of six terms only - the flag-free sources of three to five terms sit at
        // multiples of 4; idx % 16 == 8 takes some of those in)
        if !has_flag && (idx % 4 == 2 || idx % 16 == 8) {
            let mut skeleton = f.clone();
            skeleton.anns.clear();
            match (drive::build(f, Mode::Minimal), drive::build(&skeleton, Mode::Minimal)) {
                (Ok(own), Ok(other)) => {
                    for &root in &ids {
                        for leaves in collections.iter().filter(|l| l.len() <= 2) {
                            foreign_handles(ctx, &own, &other, f, root, leaves, what);
                        }
                    }
                }
                (a, b) => ctx.violation("Builder", "construction fails on valid facts", json!({"family": what, "facts": f.to_json(), "observed": [a.err(), b.err()], "note": "second: the same terms and links without records"})),
            }
        }
        // the same source with term names beyond 255 bytes (only the Builder and the text loader can carry them;
        // sub_ontology copies names, it does not re-encode them): single leaves
        if !has_flag && idx % 4 == 0 {
            let mut fl = f.clone();
            for (i, t) in fl.terms.iter_mut().enumerate() {
                t.name = match i % 4 {
                    0 => "a".repeat(256),
                    1 => "\u{e9}".repeat(150),
                    2 => format!("{}\u{20ac}", "b".repeat(254)),
                    _ => "c".repeat(1000),
                };
            }
            let rl = RefOnt::derive(&fl);
            match drive::build(&fl, Mode::Minimal) {
                Ok(o) => {
                    for &root in &ids {
                        for leaves in collections.iter().filter(|l| l.len() == 1) {
                            let case = || json!({"family": what, "source": f.to_json(), "source_constructor": "Builder::build_minimal, term names of 256 / 300 / 257 / 1000 bytes", "root": root, "leaves": leaves});
                            check_one(ctx, &o, &rl, Mode::Minimal, &up, root, leaves, &case, None);
                        }
                    }
                }
                Err(e) => ctx.violation("Builder", "construction fails on valid facts (term names of 256 / 300 / 257 / 1000 bytes)", json!({"family": what, "facts": f.to_json(), "observed": e})),
            }
        }
        // custom modifier roots installed through the public modifier_mut(): each free term in turn, and each pair
        if !has_flag && n <= 5 {
            let free: Vec<u32> = ids.iter().copied().filter(|i| *i != 1 && *i != 118).collect();
            let mut root_sets: Vec<Vec<u32>> = free.iter().map(|x| vec![*x]).collect();
            for a in 0..free.len() {
                for b in a + 1..free.len() {
                    root_sets.push(vec![free[a], free[b]]);
                }
            }
            for custom_set in root_sets {
                let custom = custom_set[0];
                // (a failing construction is reported above, for the same facts)
                if let Ok(mut o) = drive::build(f, Mode::Minimal) {
                    for x in &custom_set {
                        o.modifier_mut().insert(*x);
                    }
                    let roots: BTreeSet<u32> = custom_set.iter().copied().collect();
                    for &root in &ids {
                        for leaves in collections.iter().filter(|l| l.len() <= 2) {
                            let case = || json!({"family": what, "source": f.to_json(), "source_constructor": "Builder::build_minimal + modifier_mut()", "custom_modifier_roots": custom_set, "first": custom, "root": root, "leaves": leaves});
                            check_one(ctx, &o, &r, Mode::Minimal, &up, root, leaves, &case, Some(&roots));
                        }
                    }
                }
            }
        }
        // the same on DECODED sources that carry flags (obsolete / replaced terms), every 3rd of them: the default roots
        // replaced by one custom root through modifier_mut() - flags and custom roots together
        if has_flag && n <= 5 && idx % 3 == 1 {
            let free: Vec<u32> = ids.iter().copied().filter(|i| *i != 1 && *i != 118).collect();
            for custom in free {
                // (the same bytes were decoded above; a refusal is reported there)
                if let Ok(Ok(mut o)) = drive::from_bytes(&encode::encode(f, &EncOpts::v(3))) {
                    *o.modifier_mut() = hpo::term::HpoGroup::new();
                    o.modifier_mut().insert(custom);
                    let roots: BTreeSet<u32> = [custom].into_iter().collect();
                    for &root in &ids {
                        for leaves in collections.iter().filter(|l| l.len() == 1) {
                            let case = || json!({"family": what, "source": f.to_json(), "source_constructor": "from_bytes, then modifier_mut() = {custom root}", "custom_modifier_roots": [custom], "root": root, "leaves": leaves});
                            check_one(ctx, &o, &r, Mode::Minimal, &up, root, leaves, &case, Some(&roots));
                        }
                    }
                }
            }
        }
        ctx.sample(|| json!({"family": what, "source": f.to_json(), "roots": n, "leaf_collections": collections.len()}));
    }
    same_named(ctx);
    large(ctx);
}
