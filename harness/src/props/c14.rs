//! C14 - sub-ontologies keep shortest leaf-root chains, induced links, phenotype links.

use super::c01::self_consistent;
use super::common::family_e_opt;
use crate::ctx::{guard, Ctx};
use crate::drive;
use crate::encode::{self, EncOpts};
use crate::model::{Facts, Mode, RefOnt};
use crate::obs::Obs;
use hpo::Ontology;
use serde_json::{json, Value};
use std::collections::{BTreeMap, BTreeSet};

fn sub(src: &Ontology, root: u32, leaves: &[u32]) -> Result<Result<Ontology, String>, String> {
    guard(|| src.sub_ontology(src.hpo(root).unwrap(), leaves.iter().map(|l| src.hpo(*l).unwrap()).collect::<Vec<_>>()).map_err(|e| e.to_string()))
}

/// `own.sub_ontology` called with root / leaf handles taken from `other` (same terms and links): the result
/// must be the one obtained with `own`'s handles.
pub fn foreign_handles(ctx: &mut Ctx, own: &Ontology, other: &Ontology, f: &Facts, root: u32, leaves: &[u32], what: &str) {
    ctx.exec();
    ctx.validated();
    ctx.transitions(2);
    let a = sub(own, root, leaves);
    let b = guard(|| own.sub_ontology(other.hpo(root).unwrap(), leaves.iter().map(|l| other.hpo(*l).unwrap()).collect::<Vec<_>>()).map_err(|e| e.to_string()));
    let same = match (&a, &b) {
        (Ok(Ok(x)), Ok(Ok(y))) => match (Obs::of(x), Obs::of(y)) {
            (Ok(ox), Ok(oy)) => oy.diff(&ox, true).map(|d| format!("{} {} {}", d.0, d.1, d.2)),
            _ => Some("the result cannot be walked".to_string()),
        },
        (Ok(Err(_)), Ok(Err(_))) => None,
        // refusing handles of another instance is a legitimate policy; a DIFFERENT ontology is not
        (Ok(Ok(_)), Ok(Err(_))) | (Ok(Ok(_)), Err(_)) => None,
        _ => Some(format!("own handles: {:?}; foreign handles: {:?}", a.as_ref().map(|r| r.as_ref().map(|_| ())), b.as_ref().map(|r| r.as_ref().map(|_| ())))),
    };
    if let Some(d) = same {
        ctx.violation("Ontology::sub_ontology", "result depends on which Ontology instance the root / leaf handles were taken from", json!({"family": what, "source": f.to_json(), "root": root, "leaves": leaves, "handles_from": "an instance with the same terms and links but no records", "difference": d}));
    }
}

#[allow(clippy::too_many_arguments)]
pub fn check_one(ctx: &mut Ctx, src: &Ontology, r: &RefOnt, mode: Mode, up: &BTreeMap<u32, BTreeMap<u32, usize>>, root: u32, leaves: &[u32], case: &dyn Fn() -> Value, custom_roots: Option<&BTreeSet<u32>>) {
    let is_mod = |t: u32| -> bool {
        match custom_roots {
            Some(roots) => r.anc_incl(t).iter().any(|a| roots.contains(a)),
            None => r.is_modifier(t, mode),
        }
    };
    ctx.exec();
    ctx.validated();
    ctx.transitions(1 + leaves.len() as u64);
    let site = "Ontology::sub_ontology";
    let valid = leaves.iter().all(|l| *l == root || r.terms[l].ancestors.contains(&root));
    let res = sub(src, root, leaves);
    let s = match (res, valid) {
        (Err(p), _) => {
            ctx.violation(site, "panics", json!({"case": case(), "observed": p}));
            return;
        }
        (Ok(Err(_)), false) => return,
        (Ok(Err(e)), true) => {
            ctx.violation(site, "refused although every leaf is root or a descendant of root", json!({"case": case(), "observed": e}));
            return;
        }
        (Ok(Ok(_)), false) => {
            ctx.violation(site, "accepted although a leaf is neither root nor a descendant of root", json!({"case": case()}));
            return;
        }
        (Ok(Ok(s)), true) => s,
    };
    let obs = match Obs::of(&s) {
        Ok(o) => o,
        Err(i) => {
            ctx.violation(&i.site, "[sub_ontology] read API inconsistent or panicking", json!({"case": case(), "observed": i.what}));
            return;
        }
    };
    let retained: BTreeSet<u32> = obs.terms.iter().map(|t| t.id).collect();
    // contains root and every leaf
    if !retained.contains(&root) || leaves.iter().any(|l| !retained.contains(l)) {
        ctx.violation(site, "result does not contain root and every leaf", json!({"case": case(), "retained": retained}));
        return;
    }
    // only terms on a shortest chain from some leaf to root
    for t in &retained {
        let on_chain = leaves.iter().any(|l| match (up[l].get(t), up[t].get(&root), up[l].get(&root)) {
            (Some(a), Some(b), Some(c)) => a + b == *c,
            _ => false,
        });
        if !on_chain {
            ctx.violation(site, "retains a term that lies on no shortest chain from a leaf to root", json!({"case": case(), "retained": retained, "term": t}));
            return;
        }
    }
    // names and flags copied, induced parent links
    for t in &obs.terms {
        let st = &r.terms[&t.id];
        if t.name != st.name || t.obsolete != st.obsolete || t.replacement != st.replacement {
            ctx.violation(site, "name, obsolete flag or replacement of a retained term is not copied", json!({"case": case(), "term": t.id, "observed": [json!(t.name), json!(t.obsolete), json!(t.replacement)]}));
            return;
        }
        let want: Vec<u32> = st.parents.iter().copied().filter(|p| retained.contains(p)).collect();
        if t.parents != want {
            ctx.violation(site, "parent links are not exactly the original links between retained terms", json!({"case": case(), "term": t.id, "observed": t.parents, "expected": want}));
            return;
        }
    }
    // each leaf reaches root at its original distance (a complete shortest chain is retained)
    let mut sf = Facts::default();
    for t in &obs.terms {
        sf.terms.push(Facts::term(t.id, &t.name));
        for p in &t.parents {
            sf.edges.push((t.id, *p));
        }
    }
    let sr = RefOnt::derive(&sf);
    for l in leaves {
        let d_sub = sr.up_distances(*l).get(&root).copied();
        let d_src = up[l].get(&root).copied();
        if d_sub != d_src {
            ctx.violation(site, "a leaf does not reach root at its original distance", json!({"case": case(), "leaf": l, "distance_in_result": d_sub, "distance_in_source": d_src}));
            return;
        }
    }
    // records: kept iff directly annotated to a retained non-modifier term; then exactly the retained subset of its terms
    for k in 0..3 {
        let mut want: BTreeMap<u32, (String, Vec<u32>)> = BTreeMap::new();
        for (id, rec) in &r.recs[k] {
            let keep = rec.terms.iter().any(|t| retained.contains(t) && !is_mod(*t));
            if keep {
                want.insert(*id, (rec.name.clone(), rec.terms.iter().copied().filter(|t| retained.contains(t)).collect()));
            }
        }
        let got: BTreeMap<u32, (String, Vec<u32>)> = obs.recs[k].iter().map(|x| (x.id, (x.name.clone(), x.terms.clone()))).collect();
        if got != want {
            let gk: Vec<u32> = got.keys().copied().collect();
            let wk: Vec<u32> = want.keys().copied().collect();
            let sig = if gk != wk {
                if gk.iter().any(|g| !wk.contains(g)) {
                    "keeps a gene/disease that is not directly annotated to a retained non-modifier term"
                } else {
                    "drops a gene/disease that is directly annotated to a retained non-modifier term"
                }
            } else {
                "a kept gene/disease is not linked to exactly the retained subset of its direct terms"
            };
            ctx.violation(site, sig, json!({"case": case(), "kind": crate::model::KINDS[k].name(), "retained": retained, "observed": format!("{got:?}"), "expected": format!("{want:?}")}));
            return;
        }
    }
    // closure, inheritance, information content on its own facts
    self_consistent(ctx, &s, "sub_ontology", Mode::Minimal, case);
    // fixed point
    match sub(&s, root, leaves) {
        Ok(Ok(s2)) => match Obs::of(&s2) {
            Ok(o2) => {
                if let Some((site2, sig, det)) = o2.diff(&obs, true) {
                    ctx.violation(&site2, &format!("[sub_ontology of the sub_ontology] not a fixed point: {sig}"), json!({"case": case(), "difference": det}));
                }
            }
            Err(i) => ctx.violation(&i.site, "[sub_ontology of the sub_ontology] read API inconsistent", json!({"case": case(), "observed": i.what})),
        },
        other => ctx.violation(site, "sub_ontology of the sub_ontology with the same arguments fails", json!({"case": case(), "observed": format!("{:?}", other.map(|r| r.map(|_| ())))})),
    }
    ctx.outcome(obs.fingerprint());
}

fn large(ctx: &mut Ctx) {
    let family = crate::props::common::large_family();
    ctx.space("large-structured/roots-x-leaves", &format!("{} large shapes (records on the last terms, the middle and the top; gene 7 / OMIM 7 on every 2nd term, ORPHA 7 on the last; without and with custom modifier roots (3rd term; 3rd term + middle)) x roots {{HP:1, HP:118, middle}} x leaf collections {{last}}, {{last, middle}}, {{last two}}, {{every 9th term}}, {{last, last}}", family.len()));
    for (base, what) in &family {
        if !ctx.take() {
            continue;
        }
        ctx.state();
        ctx.nontrivial();
        let mut f = base.clone();
        let ids: Vec<u32> = f.terms.iter().map(|t| t.id).collect();
        let n = ids.len();
        f.anns.push(Facts::ann(crate::model::Kind::Gene, 11, "GENE1", Some(ids[n - 1])));
        f.anns.push(Facts::ann(crate::model::Kind::Gene, 11, "GENE1", Some(ids[n / 2])));
        f.anns.push(Facts::ann(crate::model::Kind::Gene, 22, "GENE2", Some(ids[0])));
        f.anns.push(Facts::ann(crate::model::Kind::Omim, 600_001, "Disease one", Some(ids[n - 2])));
        f.anns.push(Facts::ann(crate::model::Kind::Orpha, 77, "Orpha one", Some(ids[n / 2])));
        f.anns.push(Facts::ann(crate::model::Kind::Orpha, 78, "Orpha two", Some(ids[1])));
        // records with very many direct terms (every 2nd term), a strict non-contiguous part of which is retained;
        // the same numeric id in all three kinds
        for i in (0..n).step_by(2) {
            f.anns.push(Facts::ann(crate::model::Kind::Gene, 7, "SEVEN", Some(ids[i])));
            f.anns.push(Facts::ann(crate::model::Kind::Omim, 7, "Seven (omim)", Some(ids[i])));
        }
        f.anns.push(Facts::ann(crate::model::Kind::Orpha, 7, "Seven (orpha)", Some(ids[n - 1])));
        let r = RefOnt::derive(&f);
        let up: BTreeMap<u32, BTreeMap<u32, usize>> = ids.iter().map(|i| (*i, r.up_distances(*i))).collect();
        ctx.transitions(f.n_steps());
        let Ok(mut src) = drive::build(&f, Mode::Minimal) else {
            ctx.violation("Builder", "construction fails on valid facts", json!({"shape": what}));
            continue;
        };
        let last = ids[n - 1];
        let mid = ids[n / 2];
        let collections: Vec<Vec<u32>> = vec![vec![last], vec![last, mid], vec![ids[n - 1], ids[n - 2]], ids.iter().copied().step_by(9).collect(), vec![last, last]];
        for root in [ids[0], ids[1], mid] {
            for leaves in &collections {
                let case = || json!({"shape": what, "n_terms": n, "root": root, "leaves": leaves});
                check_one(ctx, &src, &r, Mode::Minimal, &up, root, leaves, &case, None);
            }
        }
        // the same with custom modifier roots installed: the third term (everything below it is a modifier term
        // with up to hundreds of ancestors), then additionally the middle term
        for roots in [vec![ids[2]], vec![ids[2], mid]] {
            *src.modifier_mut() = hpo::term::HpoGroup::new();
            for x in &roots {
                src.modifier_mut().insert(*x);
            }
            let rs: BTreeSet<u32> = roots.iter().copied().collect();
            for root in [ids[0], ids[1]] {
                for leaves in &collections {
                    let case = || json!({"shape": what, "n_terms": n, "root": root, "leaves": leaves, "custom_modifier_roots": roots});
                    check_one(ctx, &src, &r, Mode::Minimal, &up, root, leaves, &case, Some(&rs));
                }
            }
        }
        ctx.sample(|| json!({"shape": what, "n_terms": n}));
    }
}

pub fn run(ctx: &mut Ctx) {
    let thorough = ctx.tier.thorough();
    ctx.rule = "case = one source ontology of family E (built with defaults from bytes, and without flags also build_minimal via the Builder) with every root and every leaf collection in the bound (all single leaves, all ordered pairs incl. duplicates; all subsets when n <= 5; thorough: all multisets of size 3); distinct by construction; non-trivial = source with a term reachable from a leaf by chains of different length or with a record on a modifier term".into();
    ctx.assumptions = vec![
        "modifier classification is taken from the source ontology (is_modifier); a build_minimal source has no modifier roots".into(),
        "the result's release version and categories are not specified and not compared".into(),
    ];
    let kmax = if thorough { 4 } else { 3 };
    let family = family_e_opt(1, kmax, &[200, 7, 300, 150], true);
    let stride = if thorough { 1 } else { 2 };
    ctx.space("family-E/roots-x-leaf-collections", &format!("{} source ontologies (every {stride}th of family E, k <= {kmax}) x every root x leaf collections", family.len().div_ceil(stride)));
    for (idx, (f, what)) in family.iter().enumerate() {
        if idx % stride != 0 {
            continue;
        }
        if !ctx.take() {
            continue;
        }
        ctx.state();
        let r = RefOnt::derive(f);
        let ids: Vec<u32> = f.terms.iter().map(|t| t.id).collect();
        let n = ids.len();
        let up: BTreeMap<u32, BTreeMap<u32, usize>> = ids.iter().map(|i| (*i, r.up_distances(*i))).collect();
        let modifier_records = (0..3).any(|k| r.recs[k].values().any(|rec| rec.terms.iter().any(|t| r.is_modifier(*t, Mode::Defaults))));
        if modifier_records || f.edges.len() > n {
            ctx.nontrivial();
        }
        let has_flag = f.terms.iter().any(|t| t.obsolete || t.replacement.is_some());
        let mut sources: Vec<(Ontology, Mode, &str)> = vec![];
        ctx.transitions(f.n_steps());
        match drive::from_bytes(&encode::encode(f, &EncOpts::v(3))) {
            Ok(Ok(o)) => sources.push((o, Mode::Defaults, "from_bytes (defaults)")),
            other => {
                ctx.violation("Ontology::from_bytes", "rejects a file laid out as documented", json!({"facts": f.to_json(), "observed": format!("{:?}", other.map(|r| r.map(|_| ())))}));
                continue;
            }
        }
        if !has_flag {
            if let Ok(o) = drive::build(f, Mode::Minimal) {
                sources.push((o, Mode::Minimal, "Builder::build_minimal"));
            }
        }
        // leaf collections
        let mut collections: Vec<Vec<u32>> = vec![];
        for a in &ids {
            collections.push(vec![*a]);
        }
        for a in &ids {
            for b in &ids {
                collections.push(vec![*a, *b]);
            }
        }
        if n <= 5 {
            for mask in 1u32..(1 << n) {
                if mask.count_ones() >= 3 {
                    collections.push(crate::space::bits(mask, n).iter().map(|i| ids[*i]).collect());
                }
            }
        } else {
            collections.push(ids.clone());
            let mut rev = ids.clone();
            rev.reverse();
            collections.push(rev);
        }
        if thorough {
            for a in 0..n {
                for b in a..n {
                    for c in b..n {
                        collections.push(vec![ids[c], ids[a], ids[b]]);
                    }
                }
            }
        }
        for (src, mode, path) in &sources {
            for &root in &ids {
                for leaves in &collections {
                    let case = || json!({"family": what, "source": f.to_json(), "source_constructor": path, "root": root, "leaves": leaves});
                    check_one(ctx, src, &r, *mode, &up, root, leaves, &case, None);
                }
            }
        }
        // root and leaves named through handles of ANOTHER Ontology instance (the same terms and links, no
        // records at all): a sub-ontology is cut out of the ontology the method is called on - the handles
        // only say which terms are meant
        if !has_flag && idx % 4 == 2 {
            let mut skeleton = f.clone();
            skeleton.anns.clear();
            if let (Ok(own), Ok(other)) = (drive::build(f, Mode::Minimal), drive::build(&skeleton, Mode::Minimal)) {
                for &root in &ids {
                    for leaves in collections.iter().filter(|l| l.len() <= 2) {
                        foreign_handles(ctx, &own, &other, f, root, leaves, what);
                    }
                }
            }
        }
        // the same source with term names beyond 255 bytes (only the Builder and the text loader can carry them;
        // sub_ontology copies names, it does not re-encode them): single leaves
        if !has_flag && idx % 4 == 0 {
            let mut fl = f.clone();
            for (i, t) in fl.terms.iter_mut().enumerate() {
                t.name = match i % 4 {
                    0 => "a".repeat(256),
                    1 => "\u{e9}".repeat(150),
                    2 => format!("{}\u{20ac}", "b".repeat(254)),
                    _ => "c".repeat(1000),
                };
            }
            let rl = RefOnt::derive(&fl);
            if let Ok(o) = drive::build(&fl, Mode::Minimal) {
                for &root in &ids {
                    for leaves in collections.iter().filter(|l| l.len() == 1) {
                        let case = || json!({"family": what, "source": f.to_json(), "source_constructor": "Builder::build_minimal, term names of 256 / 300 / 257 / 1000 bytes", "root": root, "leaves": leaves});
                        check_one(ctx, &o, &rl, Mode::Minimal, &up, root, leaves, &case, None);
                    }
                }
            }
        }
        // custom modifier roots installed through the public modifier_mut(): each free term in turn, and each pair
        if !has_flag && n <= 5 {
            let free: Vec<u32> = ids.iter().copied().filter(|i| *i != 1 && *i != 118).collect();
            let mut root_sets: Vec<Vec<u32>> = free.iter().map(|x| vec![*x]).collect();
            for a in 0..free.len() {
                for b in a + 1..free.len() {
                    root_sets.push(vec![free[a], free[b]]);
                }
            }
            for custom_set in root_sets {
                let custom = custom_set[0];
                if let Ok(mut o) = drive::build(f, Mode::Minimal) {
                    for x in &custom_set {
                        o.modifier_mut().insert(*x);
                    }
                    let roots: BTreeSet<u32> = custom_set.iter().copied().collect();
                    for &root in &ids {
                        for leaves in collections.iter().filter(|l| l.len() <= 2) {
                            let case = || json!({"family": what, "source": f.to_json(), "source_constructor": "Builder::build_minimal + modifier_mut()", "custom_modifier_roots": custom_set, "first": custom, "root": root, "leaves": leaves});
                            check_one(ctx, &o, &r, Mode::Minimal, &up, root, leaves, &case, Some(&roots));
                        }
                    }
                }
            }
        }
        ctx.sample(|| json!({"family": what, "source": f.to_json(), "roots": n, "leaf_collections": collections.len()}));
    }
    large(ctx);
}
