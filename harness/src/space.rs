//! Deterministic enumerators: labelled DAGs, permutations, subsets, sequences.

/// A labelled DAG on n nodes 0..n; `parents[c]` = bit mask of the direct parents of node c.
#[derive(Clone, Debug, PartialEq, Eq, Hash)]
pub struct Dag {
    pub n: usize,
    pub parents: Vec<u32>,
}

impl Dag {
    pub fn edges(&self) -> Vec<(usize, usize)> {
        // (child, parent) pairs in ascending (child, parent) order
        let mut v = vec![];
        for c in 0..self.n {
            for p in 0..self.n {
                if self.parents[c] >> p & 1 == 1 {
                    v.push((c, p));
                }
            }
        }
        v
    }
    pub fn n_edges(&self) -> usize {
        self.parents.iter().map(|m| m.count_ones() as usize).sum()
    }
    /// ancestor bit masks (transitive closure, exclusive)
    pub fn ancestors(&self) -> Vec<u32> {
        let mut anc = self.parents.clone();
        loop {
            let mut changed = false;
            for c in 0..self.n {
                let mut m = anc[c];
                for p in 0..self.n {
                    if anc[c] >> p & 1 == 1 {
                        m |= anc[p];
                    }
                }
                if m != anc[c] {
                    anc[c] = m;
                    changed = true;
                }
            }
            if !changed {
                return anc;
            }
        }
    }
    pub fn is_acyclic(&self) -> bool {
        let anc = self.ancestors();
        (0..self.n).all(|i| anc[i] >> i & 1 == 0)
    }
    /// closure differs from direct parents somewhere (depth >= 2)
    pub fn has_depth2(&self) -> bool {
        let anc = self.ancestors();
        (0..self.n).any(|i| anc[i] != self.parents[i])
    }
    /// some node has two distinct upward routes to the same ancestor
    pub fn has_diamond(&self) -> bool {
        let anc = self.ancestors();
        for c in 0..self.n {
            let ps: Vec<usize> = (0..self.n).filter(|p| self.parents[c] >> p & 1 == 1).collect();
            for i in 0..ps.len() {
                for j in i + 1..ps.len() {
                    let a = anc[ps[i]] | 1 << ps[i];
                    let b = anc[ps[j]] | 1 << ps[j];
                    if a & b != 0 {
                        return true;
                    }
                }
            }
        }
        false
    }
    pub fn describe(&self) -> String {
        let e: Vec<String> = self.edges().iter().map(|(c, p)| format!("{c}->{p}")).collect();
        format!("n={} is_a[{}]", self.n, e.join(","))
    }
}

/// Known counts of labelled DAGs (OEIS A003024) used as a self-check of the enumerator.
pub const DAG_COUNTS: [u64; 7] = [1, 1, 3, 25, 543, 29281, 3781503];

/// Calls `f` for every labelled DAG on n nodes, in a fixed order (simplest first within the
/// ternary counting order of the unordered pairs: none / low->high is_a / high->low).
/// Returns the number of DAGs visited.
pub fn for_each_dag<F: FnMut(&Dag)>(n: usize, mut f: F) -> u64 {
    let pairs: Vec<(usize, usize)> = (0..n).flat_map(|i| (i + 1..n).map(move |j| (i, j))).collect();
    let mut dag = Dag { n, parents: vec![0; n] };
    let mut count = 0u64;
    // depth-first over pairs with incremental cycle pruning (reachability masks)
    fn rec<F: FnMut(&Dag)>(k: usize, pairs: &[(usize, usize)], dag: &mut Dag, count: &mut u64, f: &mut F) {
        if k == pairs.len() {
            *count += 1;
            f(dag);
            return;
        }
        let (i, j) = pairs[k];
        // choice 0: no edge
        rec(k + 1, pairs, dag, count, f);
        // choice 1: i is_a j (j parent of i) -- allowed unless i is already an ancestor of j
        let anc = dag.ancestors();
        if anc[j] >> i & 1 == 0 {
            dag.parents[i] |= 1 << j;
            rec(k + 1, pairs, dag, count, f);
            dag.parents[i] &= !(1 << j);
        }
        // choice 2: j is_a i
        if anc[i] >> j & 1 == 0 {
            dag.parents[j] |= 1 << i;
            rec(k + 1, pairs, dag, count, f);
            dag.parents[j] &= !(1 << i);
        }
    }
    rec(0, &pairs, &mut dag, &mut count, &mut f);
    count
}

/// Collect all DAGs on n nodes sorted simplest-first (fewest edges first, then enumeration order).
pub fn all_dags(n: usize) -> Vec<Dag> {
    let mut v = vec![];
    for_each_dag(n, |d| v.push(d.clone()));
    assert_eq!(v.len() as u64, DAG_COUNTS[n], "DAG enumerator self-check failed for n={n}");
    v.sort_by_key(|d| d.n_edges());
    v
}

/// All 2^(n(n-1)/2) DAGs on n nodes whose links respect the node order (the parents of node j are among the
/// nodes 0..j): one representative of every unlabelled shape in every topological numbering. Used beyond the
/// size at which all labelled DAGs are affordable; callers assign ids ascending and descending.
pub fn topo_dags(n: usize) -> Vec<Dag> {
    let pairs: Vec<(usize, usize)> = (0..n).flat_map(|c| (0..c).map(move |p| (c, p))).collect();
    let mut out = Vec::with_capacity(1usize << pairs.len());
    for mask in 0u64..(1u64 << pairs.len()) {
        let mut parents = vec![0u32; n];
        for (k, (c, p)) in pairs.iter().enumerate() {
            if mask >> k & 1 == 1 {
                parents[*c] |= 1 << p;
            }
        }
        out.push(Dag { n, parents });
    }
    assert_eq!(out.len(), 1usize << (n * (n - 1) / 2));
    out
}

/// All permutations of 0..n in lexicographic order.
pub fn permutations(n: usize) -> Vec<Vec<usize>> {
    let mut out = vec![];
    let mut p: Vec<usize> = (0..n).collect();
    loop {
        out.push(p.clone());
        // next lexicographic permutation
        if n < 2 {
            break;
        }
        let mut i = n - 1;
        while i > 0 && p[i - 1] >= p[i] {
            i -= 1;
        }
        if i == 0 {
            break;
        }
        let mut j = n - 1;
        while p[j] <= p[i - 1] {
            j -= 1;
        }
        p.swap(i - 1, j);
        p[i..].reverse();
    }
    out
}

/// Ascending, descending and every rotation of 0..n (a small order family for larger n).
pub fn rotations_and_reverse(n: usize) -> Vec<Vec<usize>> {
    let mut out: Vec<Vec<usize>> = vec![];
    for r in 0..n.max(1) {
        let p: Vec<usize> = (0..n).map(|i| (i + r) % n.max(1)).collect();
        if !out.contains(&p) {
            out.push(p);
        }
    }
    let rev: Vec<usize> = (0..n).rev().collect();
    if !out.contains(&rev) {
        out.push(rev);
    }
    out
}

/// All permutations reachable from the identity by at most d adjacent transpositions.
pub fn within_transpositions(n: usize, d: usize) -> Vec<Vec<usize>> {
    let mut seen: std::collections::BTreeSet<Vec<usize>> = std::collections::BTreeSet::new();
    let id: Vec<usize> = (0..n).collect();
    seen.insert(id.clone());
    let mut frontier = vec![id];
    for _ in 0..d {
        let mut next = vec![];
        for p in &frontier {
            for i in 0..n.saturating_sub(1) {
                let mut q = p.clone();
                q.swap(i, i + 1);
                if seen.insert(q.clone()) {
                    next.push(q);
                }
            }
        }
        frontier = next;
    }
    seen.into_iter().collect()
}

pub fn apply_perm<T: Clone>(items: &[T], perm: &[usize]) -> Vec<T> {
    perm.iter().map(|&i| items[i].clone()).collect()
}

/// Bits of `mask` below n as indices.
pub fn bits(mask: u32, n: usize) -> Vec<usize> {
    (0..n).filter(|i| mask >> i & 1 == 1).collect()
}
