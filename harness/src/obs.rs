//! Canonical, sorted snapshot of everything the read API of an `Ontology` exposes.

use crate::ctx::guard;
use crate::model::{Kind, Mode, RefOnt, KINDS};
use hpo::annotations::{AnnotationId, Disease};
use hpo::term::InformationContentKind;
use hpo::{HpoTermId, Ontology};
use std::collections::BTreeSet;

#[derive(Clone, Debug, PartialEq)]
pub struct ObsTerm {
    pub id: u32,
    pub name: String,
    pub obsolete: bool,
    pub replacement: Option<u32>,
    pub parents: Vec<u32>,
    pub children: Vec<u32>,
    pub ancestors: Vec<u32>,
    /// inherited record ids per kind (gene, omim, orpha)
    pub recs: [Vec<u32>; 3],
    pub ic: [f32; 3],
    pub is_modifier: bool,
    pub categories: Vec<u32>,
}

#[derive(Clone, Debug, PartialEq)]
pub struct ObsRec {
    pub id: u32,
    pub name: String,
    pub terms: Vec<u32>,
}

#[derive(Clone, Debug, PartialEq)]
pub struct Obs {
    pub len: usize,
    pub version: String,
    pub categories: Vec<u32>,
    pub modifier: Vec<u32>,
    pub terms: Vec<ObsTerm>,
    pub recs: [Vec<ObsRec>; 3],
}

fn ids<I: IntoIterator<Item = HpoTermId>>(it: I) -> Vec<u32> {
    it.into_iter().map(|i| i.as_u32()).collect()
}

fn ic_kind(k: Kind) -> InformationContentKind {
    match k {
        Kind::Gene => InformationContentKind::Gene,
        Kind::Omim => InformationContentKind::Omim,
        Kind::Orpha => InformationContentKind::Orpha,
    }
}

/// Field groups of the observation. A property whose statement speaks about one aspect of an ontology (its
/// ancestor sets, its annotation links, its information content, its classification) compares only that aspect
/// with the model: a difference in an aspect the statement does not mention is another property's business and
/// is reported by that property's check. Properties that claim observational identity (round trip, decoder,
/// text loaders, order independence, rejected calls, sub-ontology) compare everything.
pub mod scope {
    /// release version text
    pub const VERSION: u32 = 1;
    /// name, obsolete flag, replacement of a term
    pub const TERM_DATA: u32 = 2;
    /// direct parents, children, ancestors (and their iterator twins)
    pub const GRAPH: u32 = 4;
    /// term <-> record links, the sets of records, the direct terms of a record (and their resolution by id)
    pub const LINKS: u32 = 8;
    /// names / symbols of records
    pub const REC_NAMES: u32 = 16;
    /// information content
    pub const IC: u32 = 32;
    /// is_modifier, categories, the ontology's category and modifier lists
    pub const CLASSIFY: u32 = 64;
    /// ascending order of the id lists the API hands out
    pub const ORDER: u32 = 128;
    pub const ALL: u32 = u32::MAX;
}

thread_local! {
    static SCOPE: std::cell::Cell<u32> = std::cell::Cell::new(scope::ALL);
}

/// Restrict what `Obs::of` demands and `Obs::diff` reports to the given field groups (per process: one property).
/// The set of term ids, `len()` and the resolution of every iterated term by `hpo(id)` are always compared.
pub fn set_scope(mask: u32) {
    SCOPE.with(|s| s.set(mask));
}

fn in_scope(group: u32) -> bool {
    SCOPE.with(|s| s.get() & group != 0)
}

/// Internal consistency failure found while walking the API (e.g. an iterator disagreeing with its id twin).
#[derive(Debug, Clone)]
pub struct Incoherent {
    pub site: String,
    pub what: String,
}

fn sorted(mut v: Vec<u32>) -> Vec<u32> {
    v.sort_unstable();
    v
}

fn strictly_ascending(v: &[u32]) -> bool {
    v.windows(2).all(|w| w[0] < w[1])
}

impl Obs {
    /// The facts this observation itself reports: terms, direct parents, and every record with the terms it lists.
    pub fn to_facts(&self, version: (u16, u8, u8)) -> crate::model::Facts {
        let mut f = crate::model::Facts { version, ..Default::default() };
        for t in &self.terms {
            f.terms.push(crate::model::TermFact { id: t.id, name: t.name.clone(), obsolete: t.obsolete, replacement: t.replacement });
            for p in &t.parents {
                f.edges.push((t.id, *p));
            }
        }
        for (k, kind) in KINDS.iter().enumerate() {
            for rec in &self.recs[k] {
                if rec.terms.is_empty() {
                    f.anns.push(crate::model::AnnFact { kind: *kind, id: rec.id, name: rec.name.clone(), term: None });
                }
                for t in &rec.terms {
                    f.anns.push(crate::model::AnnFact { kind: *kind, id: rec.id, name: rec.name.clone(), term: Some(*t) });
                }
            }
        }
        f
    }

    /// Walk the whole read API. Err(Incoherent) if the walk panics or two views of the same datum disagree.
    pub fn of(ont: &Ontology) -> Result<Obs, Incoherent> {
        match guard(|| Obs::walk(ont)) {
            Ok(r) => r,
            Err(msg) => Err(Incoherent { site: "read API walk".into(), what: format!("panic: {msg}") }),
        }
    }

    fn walk(ont: &Ontology) -> Result<Obs, Incoherent> {
        let bad = |site: &str, what: String| Err(Incoherent { site: site.to_string(), what });
        let mut terms: Vec<ObsTerm> = vec![];
        let mut seen: BTreeSet<u32> = BTreeSet::new();
        let mut n_iter = 0usize;
        for t in ont.iter() {
            n_iter += 1;
            let id = t.id().as_u32();
            if !seen.insert(id) {
                return bad("Ontology::iter", format!("yields term {id} twice"));
            }
            // re-fetch through hpo(id): must be the same term
            let Some(t2) = ont.hpo(t.id()) else {
                return bad("Ontology::hpo", format!("iter yields {id} but hpo({id}) is None"));
            };
            if t2.id() != t.id() || (in_scope(scope::TERM_DATA) && t2.name() != t.name()) {
                return bad("Ontology::hpo", format!("hpo({id}) returns a different term than iter()"));
            }
            let parents = ids(t.parent_ids());
            let children = ids(t.children_ids());
            let ancestors = ids(t.all_parent_ids());
            if in_scope(scope::ORDER) {
                for (what, v) in [("parent_ids", &parents), ("children_ids", &children), ("all_parent_ids", &ancestors)] {
                    if !strictly_ascending(v) {
                        return bad(&format!("HpoTerm::{what}"), format!("term {id}: not strictly ascending: {v:?}"));
                    }
                }
            }
            // (outside the ORDER scope the lists are compared as multisets: sorted, duplicates kept)
            let (parents, children, ancestors) = (sorted(parents), sorted(children), sorted(ancestors));
            let parents_it: Vec<u32> = t.parents().map(|x| x.id().as_u32()).collect();
            let children_it: Vec<u32> = t.children().map(|x| x.id().as_u32()).collect();
            let ancestors_it: Vec<u32> = t.all_parents().map(|x| x.id().as_u32()).collect();
            let (parents_it, children_it, ancestors_it) = if in_scope(scope::ORDER) { (parents_it, children_it, ancestors_it) } else { (sorted(parents_it), sorted(children_it), sorted(ancestors_it)) };
            if in_scope(scope::GRAPH) && parents_it != parents {
                return bad("HpoTerm::parents", format!("term {id}: iterator {parents_it:?} != parent_ids {parents:?}"));
            }
            if in_scope(scope::GRAPH) && children_it != children {
                return bad("HpoTerm::children", format!("term {id}: iterator {children_it:?} != children_ids {children:?}"));
            }
            if in_scope(scope::GRAPH) && ancestors_it != ancestors {
                return bad("HpoTerm::all_parents", format!("term {id}: iterator {ancestors_it:?} != all_parent_ids {ancestors:?}"));
            }
            let g = sorted(t.gene_ids().iter().map(|x| x.as_u32()).collect());
            let o = sorted(t.omim_disease_ids().iter().map(|x| x.as_u32()).collect());
            let r = sorted(t.orpha_disease_ids().iter().map(|x| x.as_u32()).collect());
            let g_it = sorted(t.genes().map(|x| x.id().as_u32()).collect());
            let o_it = sorted(t.omim_diseases().map(|x| x.id().as_u32()).collect());
            let r_it = sorted(t.orpha_diseases().map(|x| x.id().as_u32()).collect());
            if in_scope(scope::LINKS) && g_it != g {
                return bad("HpoTerm::genes", format!("term {id}: iterator {g_it:?} != gene_ids {g:?}"));
            }
            if in_scope(scope::LINKS) && o_it != o {
                return bad("HpoTerm::omim_diseases", format!("term {id}: iterator {o_it:?} != omim_disease_ids {o:?}"));
            }
            if in_scope(scope::LINKS) && r_it != r {
                return bad("HpoTerm::orpha_diseases", format!("term {id}: iterator {r_it:?} != orpha_disease_ids {r:?}"));
            }
            let icv = t.information_content();
            let ic = [icv.gene(), icv.omim_disease(), icv.orpha_disease()];
            for k in KINDS {
                if in_scope(scope::IC) && icv.get_kind(&ic_kind(k)).to_bits() != ic[k.idx()].to_bits() {
                    return bad("InformationContent::get_kind", format!("term {id}: get_kind({}) differs from the accessor", k.name()));
                }
            }
            let replacement = t.replacement_id().map(|x| x.as_u32());
            // replaced_by() resolves the id when the target exists
            if !in_scope(scope::TERM_DATA) {
                // replacement / replaced_by consistency belongs to the term data
            } else if let Some(rid) = replacement {
                let resolved = t.replaced_by().map(|x| x.id().as_u32());
                let exists = ont.hpo(rid).is_some();
                if exists && resolved != Some(rid) {
                    return bad("HpoTerm::replaced_by", format!("term {id}: replacement {rid} exists but replaced_by() = {resolved:?}"));
                }
                if !exists && resolved.is_some() {
                    return bad("HpoTerm::replaced_by", format!("term {id}: replacement {rid} absent but replaced_by() = {resolved:?}"));
                }
            } else if t.replaced_by().is_some() {
                return bad("HpoTerm::replaced_by", format!("term {id}: no replacement id but replaced_by() is Some"));
            }
            terms.push(ObsTerm {
                id,
                name: t.name().to_string(),
                obsolete: t.is_obsolete(),
                replacement,
                parents,
                children,
                ancestors,
                recs: [g, o, r],
                ic,
                is_modifier: t.is_modifier(),
                categories: ids(t.categories()),
            });
        }
        if n_iter != ont.len() {
            return bad("Ontology::len", format!("len() = {} but iter() yields {}", ont.len(), n_iter));
        }
        // the three ways of iterating agree
        let via_hpos: Vec<u32> = ont.hpos().map(|t| t.id().as_u32()).collect();
        let via_ref: Vec<u32> = (&ont).into_iter().map(|t| t.id().as_u32()).collect();
        let via_iter: Vec<u32> = ont.iter().map(|t| t.id().as_u32()).collect();
        // (their relative order is nobody's statement: compared as sets)
        let (via_hpos, via_ref, via_iter) = (sorted(via_hpos), sorted(via_ref), sorted(via_iter));
        if via_hpos != via_iter || via_ref != via_iter {
            return bad("Ontology::hpos", "hpos()/&ontology/iter() disagree".to_string());
        }
        if ont.is_empty() != (ont.len() == 0) {
            return bad("Ontology::is_empty", "is_empty() disagrees with len()".to_string());
        }
        terms.sort_by_key(|t| t.id);

        let mut recs: [Vec<ObsRec>; 3] = Default::default();
        let mut seen_g = BTreeSet::new();
        for g in ont.genes() {
            let id = g.id().as_u32();
            if !seen_g.insert(id) {
                return bad("Ontology::genes", format!("yields gene {id} twice"));
            }
            match ont.gene(g.id()) {
                Some(g2) if (g2.name() == g.name() || !in_scope(scope::REC_NAMES)) && g2.id() == g.id() => {}
                _ => return bad("Ontology::gene", format!("genes() yields {id} but gene({id}) does not return it")),
            }
            if in_scope(scope::REC_NAMES) && g.symbol() != g.name() {
                return bad("Gene::symbol", format!("gene {id}: symbol() != name()"));
            }
            let terms_direct = ids(g.hpo_terms());
            if in_scope(scope::ORDER) && !strictly_ascending(&terms_direct) {
                return bad("Gene::hpo_terms", format!("gene {id}: not strictly ascending {terms_direct:?}"));
            }
            let terms_direct = sorted(terms_direct);
            let set_terms: Vec<u32> = g.to_hpo_set(ont).iter().map(|t| t.id().as_u32()).collect();
            // (the order in which the derived set iterates is nobody's statement)
            let set_terms = sorted(set_terms);
            if in_scope(scope::LINKS) && set_terms != terms_direct {
                return bad("Gene::to_hpo_set", format!("gene {id}: set {set_terms:?} != hpo_terms {terms_direct:?}"));
            }
            recs[0].push(ObsRec { id, name: g.name().to_string(), terms: terms_direct });
        }
        let mut seen_o = BTreeSet::new();
        for d in ont.omim_diseases() {
            let id = d.id().as_u32();
            if !seen_o.insert(id) {
                return bad("Ontology::omim_diseases", format!("yields disease {id} twice"));
            }
            match ont.omim_disease(d.id()) {
                Some(d2) if (d2.name() == d.name() || !in_scope(scope::REC_NAMES)) && d2.id() == d.id() => {}
                _ => return bad("Ontology::omim_disease", format!("omim_diseases() yields {id} but omim_disease({id}) does not return it")),
            }
            let terms_direct = ids(d.hpo_terms());
            if in_scope(scope::ORDER) && !strictly_ascending(&terms_direct) {
                return bad("OmimDisease::hpo_terms", format!("disease {id}: not strictly ascending {terms_direct:?}"));
            }
            let terms_direct = sorted(terms_direct);
            let set_terms: Vec<u32> = d.to_hpo_set(ont).iter().map(|t| t.id().as_u32()).collect();
            // (the order in which the derived set iterates is nobody's statement)
            let set_terms = sorted(set_terms);
            if in_scope(scope::LINKS) && set_terms != terms_direct {
                return bad("OmimDisease::to_hpo_set", format!("disease {id}: set {set_terms:?} != hpo_terms {terms_direct:?}"));
            }
            recs[1].push(ObsRec { id, name: d.name().to_string(), terms: terms_direct });
        }
        let mut seen_r = BTreeSet::new();
        for d in ont.orpha_diseases() {
            let id = d.id().as_u32();
            if !seen_r.insert(id) {
                return bad("Ontology::orpha_diseases", format!("yields disease {id} twice"));
            }
            match ont.orpha_disease(d.id()) {
                Some(d2) if (d2.name() == d.name() || !in_scope(scope::REC_NAMES)) && d2.id() == d.id() => {}
                _ => return bad("Ontology::orpha_disease", format!("orpha_diseases() yields {id} but orpha_disease({id}) does not return it")),
            }
            let terms_direct = ids(d.hpo_terms());
            if in_scope(scope::ORDER) && !strictly_ascending(&terms_direct) {
                return bad("OrphaDisease::hpo_terms", format!("disease {id}: not strictly ascending {terms_direct:?}"));
            }
            let terms_direct = sorted(terms_direct);
            let set_terms: Vec<u32> = d.to_hpo_set(ont).iter().map(|t| t.id().as_u32()).collect();
            // (the order in which the derived set iterates is nobody's statement)
            let set_terms = sorted(set_terms);
            if in_scope(scope::LINKS) && set_terms != terms_direct {
                return bad("OrphaDisease::to_hpo_set", format!("disease {id}: set {set_terms:?} != hpo_terms {terms_direct:?}"));
            }
            recs[2].push(ObsRec { id, name: d.name().to_string(), terms: terms_direct });
        }
        for r in recs.iter_mut() {
            r.sort_by_key(|x| x.id);
        }
        Ok(Obs { len: ont.len(), version: ont.hpo_version(), categories: ids(ont.categories()), modifier: ids(ont.modifier()), terms, recs })
    }

    /// What the model says the observation must be.
    pub fn expected(r: &RefOnt, mode: Mode) -> Obs {
        let v = |s: &BTreeSet<u32>| -> Vec<u32> { s.iter().copied().collect() };
        let terms = r
            .terms
            .iter()
            .map(|(id, t)| ObsTerm {
                id: *id,
                name: t.name.clone(),
                obsolete: t.obsolete,
                replacement: t.replacement,
                parents: v(&t.parents),
                children: v(&t.children),
                ancestors: v(&t.ancestors),
                recs: [v(&t.recs[0]), v(&t.recs[1]), v(&t.recs[2])],
                ic: [r.ic(*id, Kind::Gene), r.ic(*id, Kind::Omim), r.ic(*id, Kind::Orpha)],
                is_modifier: r.is_modifier(*id, mode),
                categories: r.term_categories(*id, mode),
            })
            .collect();
        let recs = [0, 1, 2].map(|k| r.recs[k].iter().map(|(id, x)| ObsRec { id: *id, name: x.name.clone(), terms: v(&x.terms) }).collect());
        Obs {
            len: r.terms.len(),
            version: format!("{:0>4}-{:0>2}-{:0>2}", r.version.0, r.version.1, r.version.2),
            categories: v(&r.categories(mode)),
            modifier: v(&r.modifier_roots(mode)),
            terms,
            recs,
        }
    }

    /// First difference between an observation and the expected one: (site, signature, detail).
    /// `exact_ic`: compare information content bit for bit (two real ontologies) or with rtol 1e-5 (model).
    pub fn diff(&self, exp: &Obs, exact_ic: bool) -> Option<(String, String, String)> {
        let d = |site: &str, sig: &str, det: String| Some((site.to_string(), sig.to_string(), det));
        if self.len != exp.len {
            return d("Ontology::len", "wrong number of terms", format!("observed {} expected {}", self.len, exp.len));
        }
        let ids_obs: Vec<u32> = self.terms.iter().map(|t| t.id).collect();
        let ids_exp: Vec<u32> = exp.terms.iter().map(|t| t.id).collect();
        if ids_obs != ids_exp {
            return d("Ontology::iter", "wrong set of term ids", format!("observed {ids_obs:?} expected {ids_exp:?}"));
        }
        if in_scope(scope::VERSION) && self.version != exp.version {
            return d("Ontology::hpo_version", "wrong release version", format!("observed {} expected {}", self.version, exp.version));
        }
        for (a, b) in self.terms.iter().zip(exp.terms.iter()) {
            let id = a.id;
            if in_scope(scope::TERM_DATA) && a.name != b.name {
                return d("HpoTerm::name", "wrong name", format!("term {id}: observed {:?} expected {:?}", crate::model::short(&a.name), crate::model::short(&b.name)));
            }
            if in_scope(scope::TERM_DATA) && a.obsolete != b.obsolete {
                return d("HpoTerm::is_obsolete", "wrong obsolete flag", format!("term {id}: observed {} expected {}", a.obsolete, b.obsolete));
            }
            if in_scope(scope::TERM_DATA) && a.replacement != b.replacement {
                return d("HpoTerm::replacement_id", "wrong replacement", format!("term {id}: observed {:?} expected {:?}", a.replacement, b.replacement));
            }
            if in_scope(scope::GRAPH) && a.parents != b.parents {
                return d("HpoTerm::parent_ids", "direct parents differ", format!("term {id}: observed {:?} expected {:?}", a.parents, b.parents));
            }
            if in_scope(scope::GRAPH) && a.children != b.children {
                return d("HpoTerm::children_ids", "children are not the inverse of parents", format!("term {id}: observed {:?} expected {:?}", a.children, b.children));
            }
            if in_scope(scope::GRAPH) && a.ancestors != b.ancestors {
                let sig = if a.ancestors.contains(&id) {
                    "ancestor set contains the term itself"
                } else if b.ancestors.iter().any(|x| !a.ancestors.contains(x)) {
                    "ancestor missing from all_parent_ids"
                } else {
                    "non-ancestor included in all_parent_ids"
                };
                return d("HpoTerm::all_parent_ids", sig, format!("term {id}: observed {:?} expected {:?}", a.ancestors, b.ancestors));
            }
            for k in KINDS {
                let (x, y) = (&a.recs[k.idx()], &b.recs[k.idx()]);
                if in_scope(scope::LINKS) && x != y {
                    let sig = if y.iter().any(|r| !x.contains(r)) { "inherited annotation missing on term" } else { "term linked to an annotation of no descendant" };
                    return d(&format!("HpoTerm::{}_ids", kind_fn(k)), sig, format!("term {id}: observed {x:?} expected {y:?}"));
                }
            }
            for k in KINDS {
                let (x, y) = (a.ic[k.idx()], b.ic[k.idx()]);
                let ok = if exact_ic { x.to_bits() == y.to_bits() || (x == 0.0 && y == 0.0) } else { close_ic(x, y, exp.recs[k.idx()].len()) };
                if in_scope(scope::IC) && !ok {
                    return d(&format!("InformationContent::{}", kind_fn(k)), "information content is not -ln(n/N)", format!("term {id}: observed {x} expected {y}"));
                }
            }
            if in_scope(scope::CLASSIFY) && a.is_modifier != b.is_modifier {
                return d("HpoTerm::is_modifier", "wrong modifier classification", format!("term {id}: observed {} expected {}", a.is_modifier, b.is_modifier));
            }
            if in_scope(scope::CLASSIFY) && a.categories != b.categories {
                return d("HpoTerm::categories", "wrong categories", format!("term {id}: observed {:?} expected {:?}", a.categories, b.categories));
            }
        }
        if in_scope(scope::CLASSIFY) && self.categories != exp.categories {
            return d("Ontology::categories", "wrong category set", format!("observed {:?} expected {:?}", self.categories, exp.categories));
        }
        if in_scope(scope::CLASSIFY) && self.modifier != exp.modifier {
            return d("Ontology::modifier", "wrong modifier roots", format!("observed {:?} expected {:?}", self.modifier, exp.modifier));
        }
        for k in KINDS {
            let (x, y) = (&self.recs[k.idx()], &exp.recs[k.idx()]);
            let xi: Vec<u32> = x.iter().map(|r| r.id).collect();
            let yi: Vec<u32> = y.iter().map(|r| r.id).collect();
            if in_scope(scope::LINKS) && xi != yi {
                return d(&format!("Ontology::{}s", rec_fn(k)), "wrong set of records", format!("observed {xi:?} expected {yi:?}"));
            }
            // (joined by id: outside the LINKS scope the two sets of records may differ)
            for (p, q) in x.iter().filter_map(|p| y.iter().find(|q| q.id == p.id).map(|q| (p, q))) {
                if in_scope(scope::REC_NAMES) && p.name != q.name {
                    return d(&format!("{}::name", rec_ty(k)), "wrong record name", format!("{} {}: observed {:?} expected {:?}", k.name(), p.id, crate::model::short(&p.name), crate::model::short(&q.name)));
                }
                if in_scope(scope::LINKS) && p.terms != q.terms {
                    let sig = if p.terms.iter().any(|t| !q.terms.contains(t)) { "record lists a term it was not directly annotated with" } else { "record lost a directly annotated term" };
                    return d(&format!("{}::hpo_terms", rec_ty(k)), sig, format!("{} {}: observed {:?} expected {:?}", k.name(), p.id, p.terms, q.terms));
                }
            }
        }
        None
    }

    pub fn fingerprint(&self) -> u64 {
        crate::ctx::fnv_str(&format!("{self:?}"))
    }
}

/// The distance from |v| to the next larger f32.
pub fn ulp32(v: f32) -> f32 {
    let a = v.abs();
    if !a.is_finite() {
        return f32::NAN;
    }
    f32::from_bits(a.to_bits() + 1) - a
}

/// Information content against -ln(n/N) for a kind with N records. Any f32 or f64 evaluation of the formula
/// (ln of the rounded ratio, ln N - ln n, log1p of the complement) lies within two ulp of ln N plus four ulp of the
/// value; an expected 0 (n = N, n = 0 or N = 0) is 0 in every evaluation and is demanded exactly. Unlike a constant
/// absolute band this does not let a small information content (n close to N) be off by a visible fraction.
pub fn close_ic(x: f32, y: f32, n_total: usize) -> bool {
    if !x.is_finite() || !y.is_finite() {
        return false;
    }
    if y == 0.0 {
        return x == 0.0;
    }
    let ln_n = (n_total.max(2) as f32).ln();
    (x - y).abs() <= 2.0 * ulp32(ln_n) + 4.0 * ulp32(y)
}

pub fn close32(x: f32, y: f32) -> bool {
    if !x.is_finite() || !y.is_finite() {
        return false;
    }
    // atol 2e-6: an algebraically equal f32 formula (ln N - ln n) is quantised to one ulp of ln N, i.e. 9.5e-7
    // for N >= 2981 - any f32 evaluation of -ln(n/N) is within this band
    (x - y).abs() <= 2e-6 + 1e-5 * y.abs()
}

pub fn kind_fn(k: Kind) -> &'static str {
    match k {
        Kind::Gene => "gene",
        Kind::Omim => "omim_disease",
        Kind::Orpha => "orpha_disease",
    }
}
fn rec_fn(k: Kind) -> &'static str {
    kind_fn(k)
}
fn rec_ty(k: Kind) -> &'static str {
    match k {
        Kind::Gene => "Gene",
        Kind::Omim => "OmimDisease",
        Kind::Orpha => "OrphaDisease",
    }
}
