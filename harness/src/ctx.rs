//! Exploration context shared by all property checks: deterministic case numbering,
//! process sharding, counters, samples, violations, known findings, caps.
//!
//! A *space* is a named, finite, deterministically enumerated set of cases. Every process
//! (supervisor-less single run, one of W workers, or a single-case replay) walks the same
//! enumeration; `take()` decides whether this process executes the case it just numbered.

use serde_json::{json, Value};
use std::collections::{BTreeMap, BTreeSet, HashSet};
use std::sync::atomic::{AtomicU64, Ordering};
use std::time::{Duration, Instant};

/// Breadcrumb read by the abort handler: (space ordinal << 40) | case index, or u64::MAX.
pub static CURRENT_CASE: AtomicU64 = AtomicU64::new(u64::MAX);

#[derive(Clone, Copy, PartialEq, Eq, Debug)]
pub enum Tier {
    Quick,
    Thorough,
}

impl Tier {
    pub fn name(self) -> &'static str {
        match self {
            Tier::Quick => "quick",
            Tier::Thorough => "thorough",
        }
    }
    pub fn thorough(self) -> bool {
        self == Tier::Thorough
    }
}

#[derive(Clone, Debug, Default)]
pub struct SpaceStats {
    pub ordinal: u64,
    pub cases: u64,      // cases numbered in this space (same in every process)
    pub executed: u64,   // cases executed by this process
    pub executions: u64, // runs of the real code compared against an oracle
    pub nontrivial: u64,
    pub states: u64,
    pub transitions: u64,
    pub validated: u64,
    pub capped: bool,
    pub bound: String,
}

#[derive(Clone, Debug)]
pub struct Violation {
    pub worker: u64,
    pub nworkers: u64,
    pub space: String,
    pub space_ordinal: u64,
    pub case: u64,
    pub site: String,
    pub signature: String,
    pub detail: Value,
    pub count: u64,
}

impl Violation {
    pub fn key(&self) -> String {
        format!("{}|{}", self.site, self.signature)
    }
    pub fn to_json(&self) -> Value {
        json!({
            "worker": self.worker, "nworkers": self.nworkers,
            "space": self.space, "space_ordinal": self.space_ordinal, "case": self.case,
            "site": self.site, "signature": self.signature, "detail": self.detail, "count": self.count,
        })
    }
    pub fn from_json(v: &Value) -> Violation {
        Violation {
            worker: v["worker"].as_u64().unwrap_or(0),
            nworkers: v["nworkers"].as_u64().unwrap_or(1),
            space: v["space"].as_str().unwrap_or("").to_string(),
            space_ordinal: v["space_ordinal"].as_u64().unwrap_or(0),
            case: v["case"].as_u64().unwrap_or(0),
            site: v["site"].as_str().unwrap_or("").to_string(),
            signature: v["signature"].as_str().unwrap_or("").to_string(),
            detail: v["detail"].clone(),
            count: v["count"].as_u64().unwrap_or(1),
        }
    }
}

pub struct Ctx {
    pub prop: String,
    pub tier: Tier,
    pub seed: u64,
    pub worker: u64,
    pub nworkers: u64,
    /// replay / isolation mode: execute exactly this (space ordinal, case)
    pub only: Option<(u64, u64)>,
    /// prefix mode: execute this worker's share up to and including this (space ordinal, case), then nothing
    pub until: Option<(u64, u64)>,
    pub start: Instant,
    pub deadline: Instant,
    pub spaces: Vec<(String, SpaceStats)>,
    cur: usize,
    cur_case: u64,
    pub violations: BTreeMap<String, Violation>,
    pub samples: Vec<Value>,
    pub outcomes: HashSet<u64>,
    pub notes: BTreeSet<String>,
    pub extra: BTreeMap<String, u64>,
    pub rule: String,
    pub assumptions: Vec<String>,
    pub max_samples: usize,
}

impl Ctx {
    pub fn new(prop: &str, tier: Tier, seed: u64, worker: u64, nworkers: u64, only: Option<(u64, u64)>, budget: Duration) -> Ctx {
        let now = Instant::now();
        Ctx {
            prop: prop.to_string(),
            tier,
            seed,
            worker,
            nworkers: nworkers.max(1),
            only,
            until: None,
            start: now,
            deadline: now + budget,
            spaces: Vec::new(),
            cur: 0,
            cur_case: 0,
            violations: BTreeMap::new(),
            samples: Vec::new(),
            outcomes: HashSet::new(),
            notes: BTreeSet::new(),
            extra: BTreeMap::new(),
            rule: String::new(),
            assumptions: Vec::new(),
            max_samples: 6,
        }
    }

    /// Start a new named sub-space. `bound` describes its extent for the evidence file.
    pub fn space(&mut self, name: &str, bound: &str) {
        if std::env::var("HV_TRACE").is_ok() {
            eprintln!("[trace] worker {} t={:.1}s entering space {}", self.worker, self.start.elapsed().as_secs_f64(), name);
        }
        let ordinal = self.spaces.len() as u64;
        self.spaces.push((
            name.to_string(),
            SpaceStats { ordinal, bound: bound.to_string(), ..Default::default() },
        ));
        self.cur = self.spaces.len() - 1;
        CURRENT_CASE.store(u64::MAX, Ordering::Relaxed);
    }

    fn st(&mut self) -> &mut SpaceStats {
        if self.spaces.is_empty() {
            self.space("default", "");
        }
        let c = self.cur;
        &mut self.spaces[c].1
    }

    /// Number the next case of the current space and decide whether this process runs it.
    pub fn take(&mut self) -> bool {
        let (w, n, seed, only, until) = (self.worker, self.nworkers, self.seed, self.only, self.until);
        let past = Instant::now() > self.deadline;
        let st = self.st();
        let idx = st.cases;
        st.cases += 1;
        let ordinal = st.ordinal;
        let mut mine = match only {
            Some((o, c)) => o == ordinal && c == idx,
            None => (idx.wrapping_add(seed)) % n == w,
        };
        if let Some((o, c)) = until {
            if (ordinal, idx) > (o, c) {
                mine = false;
            }
        }
        if !mine {
            return false;
        }
        if past && only.is_none() {
            st.capped = true;
            return false;
        }
        st.executed += 1;
        self.cur_case = idx;
        CURRENT_CASE.store((ordinal << 40) | (idx & ((1u64 << 40) - 1)), Ordering::Relaxed);
        true
    }

    /// True once the wall budget is exhausted (loops may stop enumerating; the space is marked capped).
    pub fn out_of_time(&mut self) -> bool {
        if self.only.is_some() {
            return false;
        }
        if Instant::now() > self.deadline {
            self.st().capped = true;
            true
        } else {
            false
        }
    }

    /// Mark the current space as deliberately not exhaustive (e.g. a strided sub-sample of offsets).
    pub fn mark_partial(&mut self, why: &str) {
        self.st().capped = true;
        self.notes.insert(why.to_string());
    }

    pub fn exec(&mut self) {
        self.st().executions += 1;
    }
    pub fn execs(&mut self, n: u64) {
        self.st().executions += n;
    }
    pub fn nontrivial(&mut self) {
        self.st().nontrivial += 1;
    }
    pub fn nontrivials(&mut self, n: u64) {
        self.st().nontrivial += n;
    }
    pub fn state(&mut self) {
        self.st().states += 1;
    }
    pub fn states(&mut self, n: u64) {
        self.st().states += n;
    }
    pub fn transitions(&mut self, n: u64) {
        self.st().transitions += n;
    }
    pub fn validated(&mut self) {
        self.st().validated += 1;
    }
    pub fn validateds(&mut self, n: u64) {
        self.st().validated += n;
    }
    pub fn outcome(&mut self, h: u64) {
        if self.outcomes.len() < 200_000 {
            self.outcomes.insert(h);
        }
    }
    pub fn bump(&mut self, key: &str, n: u64) {
        *self.extra.entry(key.to_string()).or_insert(0) += n;
    }
    pub fn note(&mut self, s: &str) {
        self.notes.insert(s.to_string());
    }

    /// Record one sample case (first few per process; the supervisor keeps worker 0's and then others').
    pub fn sample<F: FnOnce() -> Value>(&mut self, f: F) {
        let per_space = self.samples.iter().filter(|s| s["space"] == self.spaces[self.cur].0.as_str()).count();
        if per_space < 2 && self.samples.len() < self.max_samples * 4 {
            let mut v = f();
            if let Value::Object(ref mut m) = v {
                m.insert("space".into(), json!(self.spaces[self.cur].0));
                m.insert("case".into(), json!(self.cur_case));
            } else {
                v = json!({"space": self.spaces[self.cur].0, "case": self.cur_case, "value": v});
            }
            self.samples.push(v);
        }
    }

    /// Report a violation of the property at `site` (API function) with a stable `signature`
    /// (kind of mismatch). `detail` holds the case, expected and observed values.
    pub fn violation(&mut self, site: &str, signature: &str, detail: Value) {
        let (name, ordinal) = {
            if self.spaces.is_empty() {
                self.space("default", "");
            }
            let s = &self.spaces[self.cur];
            (s.0.clone(), s.1.ordinal)
        };
        let v = Violation {
            worker: self.worker,
            nworkers: self.nworkers,
            space: name,
            space_ordinal: ordinal,
            case: self.cur_case,
            site: site.to_string(),
            signature: signature.to_string(),
            detail,
            count: 1,
        };
        let k = v.key();
        match self.violations.get_mut(&k) {
            Some(e) => e.count += 1,
            None => {
                self.violations.insert(k, v);
            }
        }
    }

    pub fn to_json(&self) -> Value {
        let spaces: Vec<Value> = self
            .spaces
            .iter()
            .map(|(n, s)| {
                json!({"name": n, "ordinal": s.ordinal, "cases": s.cases, "executed": s.executed,
                "executions": s.executions, "nontrivial": s.nontrivial, "states": s.states,
                "transitions": s.transitions, "validated": s.validated, "capped": s.capped, "bound": s.bound})
            })
            .collect();
        let mut outcomes: Vec<u64> = self.outcomes.iter().copied().collect();
        outcomes.sort_unstable();
        json!({
            "worker": self.worker,
            "spaces": spaces,
            "violations": self.violations.values().map(|v| v.to_json()).collect::<Vec<_>>(),
            "samples": self.samples,
            "outcomes": outcomes,
            "notes": self.notes.iter().collect::<Vec<_>>(),
            "extra": self.extra,
            "rule": self.rule,
            "assumptions": self.assumptions,
            "wall_s": self.start.elapsed().as_secs_f64(),
        })
    }
}

extern "C" {
    fn malloc_trim(pad: usize) -> i32;
}

/// Give freed heap memory back to the OS. After a case that built something very large (a 70 000-term
/// ontology) the allocator would otherwise serve the 80 MB id table of every later ontology from recycled
/// heap memory, which has to be zeroed explicitly (4 ms per build instead of 20 us).
pub fn trim_heap() {
    unsafe {
        malloc_trim(0);
    }
}

/// FNV-1a, used for outcome fingerprints (stable across processes, unlike RandomState).
pub fn fnv(bytes: &[u8]) -> u64 {
    let mut h: u64 = 0xcbf29ce484222325;
    for b in bytes {
        h ^= *b as u64;
        h = h.wrapping_mul(0x100000001b3);
    }
    h
}

pub fn fnv_str(s: &str) -> u64 {
    fnv(s.as_bytes())
}

/// Run subject code, converting a panic into Err(message). The panic hook is silenced globally.
pub fn guard<T, F: FnOnce() -> T>(f: F) -> Result<T, String> {
    match std::panic::catch_unwind(std::panic::AssertUnwindSafe(f)) {
        Ok(v) => Ok(v),
        Err(e) => {
            let msg = if let Some(s) = e.downcast_ref::<&str>() {
                (*s).to_string()
            } else if let Some(s) = e.downcast_ref::<String>() {
                s.clone()
            } else {
                "panic (non-string payload)".to_string()
            };
            Err(msg)
        }
    }
}
