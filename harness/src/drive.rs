//! Drivers: every construction path of the real crate, fed from the same `Facts`.

use crate::ctx::{guard, Ctx};
use crate::model::{Facts, Kind, Mode, RefOnt};
use crate::obs::Obs;
use hpo::builder::Builder;
use hpo::Ontology;
use serde_json::{json, Value};

/// Drive the public Builder API with exactly the calls the facts describe, in list order.
/// Returns Err(description) if a call fails or panics.
pub fn build(f: &Facts, mode: Mode) -> Result<Ontology, String> {
    match guard(|| build_inner(f, mode)) {
        Ok(r) => r,
        Err(msg) => Err(format!("panic: {msg}")),
    }
}

fn build_inner(f: &Facts, mode: Mode) -> Result<Ontology, String> {
    let mut b = Builder::new();
    for t in &f.terms {
        b.new_term(&t.name, t.id);
    }
    b.set_hpo_version(f.version);
    let mut b = b.terms_complete();
    for &(c, p) in &f.edges {
        b.add_parent(p, c).map_err(|e| format!("add_parent({p},{c}): {e}"))?;
    }
    let mut b = b.connect_all_terms();
    for a in &f.anns {
        match (a.kind, a.term) {
            (Kind::Gene, Some(t)) => b.annotate_gene(a.id.into(), &a.name, t.into()).map_err(|e| format!("annotate_gene({},{t}): {e}", a.id))?,
            (Kind::Omim, Some(t)) => b.annotate_omim_disease(a.id.into(), &a.name, t.into()).map_err(|e| format!("annotate_omim_disease({},{t}): {e}", a.id))?,
            (Kind::Orpha, Some(t)) => b.annotate_orpha_disease(a.id.into(), &a.name, t.into()).map_err(|e| format!("annotate_orpha_disease({},{t}): {e}", a.id))?,
            (Kind::Gene, None) => b.add_gene(&a.name, a.id.into()),
            (Kind::Omim, None) => {
                b.add_omim_disease(&a.name, a.id.into());
            }
            (Kind::Orpha, None) => {
                b.add_orpha_disease(&a.name, a.id.into());
            }
        }
    }
    let b = b.calculate_information_content().map_err(|e| format!("calculate_information_content: {e}"))?;
    match mode {
        Mode::Minimal => Ok(b.build_minimal()),
        Mode::Defaults => b.build_with_defaults().map_err(|e| format!("build_with_defaults: {e}")),
    }
}

/// Like `build`, but with calls that must be rejected interleaved between the valid ones: before every
/// `add_parent` the same call with the parent, then with the child, replaced by an absent term id; after
/// every `annotate_*` the same call (same record, then a record id used nowhere else) with an absent term id.
/// Every such call must return an error; the caller compares the result with the model of the valid facts alone.
/// What a call naming an absent term returns is not judged here (C15 does): it only must not change what the valid
/// calls build.
pub fn build_with_rejected(f: &Facts, mode: Mode, absent: &[u32]) -> Result<Ontology, String> {
    match guard(|| build_rejected_inner(f, mode, absent)) {
        Ok(r) => r,
        Err(msg) => Err(format!("panic: {msg}")),
    }
}

fn build_rejected_inner(f: &Facts, mode: Mode, absent: &[u32]) -> Result<Ontology, String> {
    let mut b = Builder::new();
    for t in &f.terms {
        b.new_term(&t.name, t.id);
    }
    b.set_hpo_version(f.version);
    let mut b = b.terms_complete();
    let mut k = 0usize;
    let mut next_absent = || {
        k += 1;
        absent[k % absent.len()]
    };
    for &(c, p) in &f.edges {
        let x = next_absent();
        let _ = b.add_parent(x, c);
        let _ = b.add_parent(p, x);
        b.add_parent(p, c).map_err(|e| format!("add_parent({p},{c}): {e}"))?;
    }
    if let Some(t) = f.terms.first() {
        let x = next_absent();
        let _ = b.add_parent(x, t.id);
        let _ = b.add_parent(t.id, x);
    }
    let mut b = b.connect_all_terms();
    let fresh = 4_000_000u32;
    for a in &f.anns {
        let x = next_absent();
        match (a.kind, a.term) {
            (Kind::Gene, Some(t)) => {
                b.annotate_gene(a.id.into(), &a.name, t.into()).map_err(|e| format!("annotate_gene({},{t}): {e}", a.id))?;
                let _ = b.annotate_gene(a.id.into(), &a.name, x.into());
                let _ = b.annotate_gene(fresh.into(), "NEVER", x.into());
            }
            (Kind::Omim, Some(t)) => {
                b.annotate_omim_disease(a.id.into(), &a.name, t.into()).map_err(|e| format!("annotate_omim_disease({},{t}): {e}", a.id))?;
                let _ = b.annotate_omim_disease(a.id.into(), &a.name, x.into());
                let _ = b.annotate_omim_disease(fresh.into(), "NEVER", x.into());
            }
            (Kind::Orpha, Some(t)) => {
                b.annotate_orpha_disease(a.id.into(), &a.name, t.into()).map_err(|e| format!("annotate_orpha_disease({},{t}): {e}", a.id))?;
                let _ = b.annotate_orpha_disease(a.id.into(), &a.name, x.into());
                let _ = b.annotate_orpha_disease(fresh.into(), "NEVER", x.into());
            }
            (Kind::Gene, None) => b.add_gene(&a.name, a.id.into()),
            (Kind::Omim, None) => {
                b.add_omim_disease(&a.name, a.id.into());
            }
            (Kind::Orpha, None) => {
                b.add_orpha_disease(&a.name, a.id.into());
            }
        }
    }
    let b = b.calculate_information_content().map_err(|e| format!("calculate_information_content: {e}"))?;
    match mode {
        Mode::Minimal => Ok(b.build_minimal()),
        Mode::Defaults => b.build_with_defaults().map_err(|e| format!("build_with_defaults: {e}")),
    }
}

/// `Ontology::from_bytes` under catch_unwind. Ok(Ok(ont)) / Ok(Err(error text)) / Err(panic text)
pub fn from_bytes(bytes: &[u8]) -> Result<Result<Ontology, String>, String> {
    guard(|| Ontology::from_bytes(bytes).map_err(|e| e.to_string()))
}

/// Compare a real ontology with the model; report the first difference as a violation.
/// Returns the observation when it could be taken.
pub fn check_against_model(ctx: &mut Ctx, ont: &Ontology, r: &RefOnt, mode: Mode, path: &str, case: &dyn Fn() -> Value) -> Option<Obs> {
    ctx.exec();
    ctx.validated();
    match Obs::of(ont) {
        Err(inc) => {
            ctx.violation(&inc.site, &format!("[{path}] read API inconsistent or panicking"), json!({"path": path, "case": case(), "observed": inc.what}));
            None
        }
        Ok(obs) => {
            let exp = Obs::expected(r, mode);
            if let Some((site, sig, det)) = obs.diff(&exp, false) {
                ctx.violation(&site, &format!("[{path}] {sig}"), json!({"path": path, "case": case(), "difference": det}));
            }
            ctx.outcome(obs.fingerprint());
            Some(obs)
        }
    }
}

/// Observe and compare two real ontologies exactly (observational identity).
pub fn check_same(ctx: &mut Ctx, a: &Obs, b: &Obs, what: &str, case: &dyn Fn() -> Value) -> bool {
    if let Some((site, sig, det)) = b.diff(a, true) {
        ctx.violation(&site, &format!("[{what}] {sig}"), json!({"comparison": what, "case": case(), "difference": det}));
        false
    } else {
        true
    }
}
