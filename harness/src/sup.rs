//! Supervisor: shards a check over worker processes, merges their reports, confirms violations by
//! isolated re-execution, applies the known-findings list, writes the evidence file.

use crate::ctx::{Violation, CURRENT_CASE};
use crate::{meta, Args, VERIF_DIR};
use serde_json::{json, Value};
use std::collections::{BTreeMap, BTreeSet};
use std::io::Read;
use std::process::{Child, Command, Stdio};
use std::sync::atomic::Ordering;
use std::sync::Mutex;
use std::time::{Duration, Instant};

extern "C" {
    fn signal(signum: i32, handler: usize) -> usize;
    fn write(fd: i32, buf: *const u8, count: usize) -> isize;
    fn kill(pid: i32, sig: i32) -> i32;
}
const SIGABRT: i32 = 6;
const SIGKILL: i32 = 9;

extern "C" fn on_abort(_sig: i32) {
    // async-signal-safe: format the breadcrumb by hand and write(2) it
    let v = CURRENT_CASE.load(Ordering::Relaxed);
    let mut buf = [0u8; 64];
    let prefix = b"\nDIED crumb=";
    let mut n = 0;
    for b in prefix {
        buf[n] = *b;
        n += 1;
    }
    let mut digits = [0u8; 20];
    let mut d = 0;
    let mut x = v;
    if x == 0 {
        digits[0] = b'0';
        d = 1;
    }
    while x > 0 {
        digits[d] = b'0' + (x % 10) as u8;
        x /= 10;
        d += 1;
    }
    while d > 0 {
        d -= 1;
        buf[n] = digits[d];
        n += 1;
    }
    buf[n] = b'\n';
    n += 1;
    unsafe {
        write(2, buf.as_ptr(), n);
    }
}

pub fn install_abort_handler() {
    unsafe {
        signal(SIGABRT, on_abort as *const () as usize);
    }
}

static LAST_PANIC: Mutex<String> = Mutex::new(String::new());

pub fn install_panic_hook() {
    std::panic::set_hook(Box::new(|info| {
        if let Ok(mut g) = LAST_PANIC.try_lock() {
            g.clear();
            if let Some(l) = info.location() {
                g.push_str(&format!("{}:{}", l.file(), l.line()));
            }
        }
    }));
}

pub fn last_panic() -> String {
    LAST_PANIC.lock().map(|g| g.clone()).unwrap_or_default()
}

struct WorkerRun {
    child: Child,
    out_path: String,
    err_path: String,
    idx: u64,
}

fn scratch_dir() -> String {
    let base = if std::path::Path::new("/dev/shm").is_dir() { "/dev/shm".to_string() } else { std::env::temp_dir().display().to_string() };
    let d = format!("{}/hpo-verif-{}", base, std::process::id());
    let _ = std::fs::create_dir_all(&d);
    d
}

fn spawn_worker(args: &Args, dir: &str, w: u64, n: u64, only: Option<(u64, u64)>, tag: &str) -> std::io::Result<WorkerRun> {
    spawn_worker_x(args, dir, w, n, only, None, tag)
}

fn spawn_worker_x(args: &Args, dir: &str, w: u64, n: u64, only: Option<(u64, u64)>, until: Option<(u64, u64)>, tag: &str) -> std::io::Result<WorkerRun> {
    let exe = std::env::current_exe()?;
    let out_path = format!("{dir}/{tag}{w}.out");
    let err_path = format!("{dir}/{tag}{w}.err");
    let out = std::fs::File::create(&out_path)?;
    let err = std::fs::File::create(&err_path)?;
    let mut cmd = Command::new(exe);
    cmd.arg(&args.id).arg("--tier").arg(args.tier.name()).arg("--worker").arg(format!("{w}/{n}"));
    if let Some((o, c)) = only {
        cmd.arg("--only").arg(format!("{o}:{c}"));
    }
    if let Some((o, c)) = until {
        cmd.arg("--until").arg(format!("{o}:{c}"));
    }
    cmd.env("VERIF_SEED", format!("{}", args.seed as i64));
    // Every ontology build allocates and frees blocks of 12 MB and 80 MB. Keep glibc's mmap threshold fixed:
    // with the default dynamic threshold one large free (a 70 000-term ontology) moves those blocks onto the
    // brk heap for the rest of the process and makes every later build ~200x slower.
    cmd.env("MALLOC_MMAP_THRESHOLD_", "1048576");
    cmd.env("VERIF_BUDGET_S", format!("{}", args.budget.as_secs()));
    cmd.stdin(Stdio::null()).stdout(out).stderr(err);
    let child = cmd.spawn()?;
    Ok(WorkerRun { child, out_path, err_path, idx: w })
}

fn read_file(p: &str) -> String {
    let mut s = String::new();
    if let Ok(mut f) = std::fs::File::open(p) {
        let mut b = Vec::new();
        let _ = f.read_to_end(&mut b);
        s = String::from_utf8_lossy(&b).to_string();
    }
    s
}

enum Outcome {
    Report(Value),
    Died { crumb: Option<u64>, stderr: String },
    Harness(String),
}

fn wait_worker(mut wr: WorkerRun, deadline: Instant) -> Outcome {
    let mut abrt_sent: Option<Instant> = None;
    loop {
        match wr.child.try_wait() {
            Ok(Some(status)) => {
                let out = read_file(&wr.out_path);
                let err = read_file(&wr.err_path);
                if status.success() {
                    // last non-empty line is the report
                    if let Some(line) = out.lines().rev().find(|l| !l.trim().is_empty()) {
                        if let Ok(v) = serde_json::from_str::<Value>(line) {
                            return Outcome::Report(v);
                        }
                    }
                    return Outcome::Harness(format!("worker {} produced no report; stderr: {}", wr.idx, tail(&err)));
                }
                if status.code() == Some(3) {
                    return Outcome::Harness(format!("worker {}: {}", wr.idx, tail(&err)));
                }
                let crumb = err.lines().rev().find_map(|l| l.strip_prefix("DIED crumb=").and_then(|x| x.trim().parse::<u64>().ok()));
                return Outcome::Died { crumb, stderr: tail(&err) };
            }
            Ok(None) => {
                let now = Instant::now();
                if let Some(t) = abrt_sent {
                    if now > t + Duration::from_secs(5) {
                        unsafe {
                            kill(wr.child.id() as i32, SIGKILL);
                        }
                    }
                } else if now > deadline {
                    unsafe {
                        kill(wr.child.id() as i32, SIGABRT);
                    }
                    abrt_sent = Some(now);
                }
                std::thread::sleep(Duration::from_millis(15));
            }
            Err(e) => return Outcome::Harness(format!("wait failed: {e}")),
        }
    }
}

fn tail(s: &str) -> String {
    let lines: Vec<&str> = s.lines().collect();
    let start = lines.len().saturating_sub(6);
    lines[start..].join(" | ")
}

#[derive(Default)]
struct Merged {
    spaces: Vec<Value>,
    violations: BTreeMap<String, Violation>,
    samples: Vec<Value>,
    outcomes: BTreeSet<u64>,
    notes: BTreeSet<String>,
    extra: BTreeMap<String, u64>,
    rule: String,
    assumptions: Vec<String>,
}

fn merge(m: &mut Merged, r: &Value) {
    if let Some(sp) = r["spaces"].as_array() {
        for (i, s) in sp.iter().enumerate() {
            if m.spaces.len() <= i {
                let mut z = s.clone();
                for k in ["executed", "executions", "nontrivial", "states", "transitions", "validated"] {
                    z[k] = json!(0u64);
                }
                z["capped"] = json!(false);
                m.spaces.push(z);
            }
            let t = &mut m.spaces[i];
            for k in ["executed", "executions", "nontrivial", "states", "transitions", "validated"] {
                t[k] = json!(t[k].as_u64().unwrap_or(0) + s[k].as_u64().unwrap_or(0));
            }
            if s["capped"].as_bool().unwrap_or(false) {
                t["capped"] = json!(true);
            }
            if s["cases"].as_u64() != t["cases"].as_u64() || s["name"] != t["name"] {
                // enumeration must be identical in every process unless a cap cut it short
                if !(s["capped"].as_bool().unwrap_or(false) || t["capped"].as_bool().unwrap_or(false)) {
                    m.notes.insert(format!("ENUMERATION-MISMATCH space {} ", i));
                }
                let a = s["cases"].as_u64().unwrap_or(0).max(t["cases"].as_u64().unwrap_or(0));
                t["cases"] = json!(a);
            }
        }
    }
    if let Some(vs) = r["violations"].as_array() {
        for v in vs {
            let v = Violation::from_json(v);
            let k = v.key();
            match m.violations.get_mut(&k) {
                Some(e) => {
                    e.count += v.count;
                    // keep the earliest case as the representative (smallest counter-example first)
                    if (v.space_ordinal, v.case) < (e.space_ordinal, e.case) {
                        let c = e.count;
                        *e = v;
                        e.count = c;
                    }
                }
                None => {
                    m.violations.insert(k, v);
                }
            }
        }
    }
    if let Some(ss) = r["samples"].as_array() {
        for s in ss {
            m.samples.push(s.clone());
        }
    }
    if let Some(os) = r["outcomes"].as_array() {
        for o in os {
            if let Some(o) = o.as_u64() {
                m.outcomes.insert(o);
            }
        }
    }
    if let Some(ns) = r["notes"].as_array() {
        for n in ns {
            if let Some(n) = n.as_str() {
                m.notes.insert(n.to_string());
            }
        }
    }
    if let Some(ex) = r["extra"].as_object() {
        for (k, v) in ex {
            *m.extra.entry(k.clone()).or_insert(0) += v.as_u64().unwrap_or(0);
        }
    }
    if m.rule.is_empty() {
        m.rule = r["rule"].as_str().unwrap_or("").to_string();
    }
    if m.assumptions.is_empty() {
        if let Some(a) = r["assumptions"].as_array() {
            m.assumptions = a.iter().filter_map(|x| x.as_str().map(|s| s.to_string())).collect();
        }
    }
}

pub struct Known {
    pub status: String,
    pub property: String,
    pub site: String,
    pub signature: String,
    pub description: String,
}

pub fn load_known() -> Result<Vec<Known>, String> {
    let p = format!("{VERIF_DIR}/known_findings.json");
    let s = match std::fs::read_to_string(&p) {
        Ok(s) => s,
        Err(_) => return Ok(vec![]),
    };
    let v: Value = serde_json::from_str(&s).map_err(|e| format!("known_findings.json: {e}"))?;
    let mut out = vec![];
    if let Some(a) = v["findings"].as_array() {
        for f in a {
            out.push(Known {
                status: f["status"].as_str().unwrap_or("").to_string(),
                property: f["property"].as_str().unwrap_or("").to_string(),
                site: f["site"].as_str().unwrap_or("").to_string(),
                signature: f["signature"].as_str().unwrap_or("").to_string(),
                description: f["description"].as_str().unwrap_or("").to_string(),
            });
        }
    }
    Ok(out)
}

fn is_known<'a>(known: &'a [Known], prop: &str, v: &Violation) -> Option<&'a Known> {
    known.iter().find(|k| k.status == "known" && k.property == prop && k.site == v.site && k.signature == v.signature)
}

/// Re-run one case in an isolated process; returns the violations it reports (by key), or None if it died.
fn rerun_case(args: &Args, dir: &str, ord: u64, case: u64, tag: &str) -> Result<Option<Vec<Violation>>, String> {
    let wr = spawn_worker(args, dir, 0, 1, Some((ord, case)), tag).map_err(|e| e.to_string())?;
    // one case in isolation normally takes well under a second; four minutes keep a correct but much slower
    // implementation on a loaded host from being mistaken for a hang (an abort or stack overflow ends at once)
    match wait_worker(wr, Instant::now() + Duration::from_secs(240)) {
        Outcome::Report(r) => Ok(Some(r["violations"].as_array().map(|a| a.iter().map(Violation::from_json).collect()).unwrap_or_default())),
        Outcome::Died { .. } => Ok(None),
        Outcome::Harness(m) => Err(m),
    }
}

/// Re-run a worker's whole share up to and including one case (for violations that depend on what the same
/// process executed before: state leaking between calls).
fn rerun_prefix(args: &Args, dir: &str, w: u64, n: u64, ord: u64, case: u64, tag: &str) -> Result<Option<Vec<Violation>>, String> {
    let wr = spawn_worker_x(args, dir, w, n, None, Some((ord, case)), tag).map_err(|e| e.to_string())?;
    match wait_worker(wr, Instant::now() + args.budget + Duration::from_secs(600)) {
        Outcome::Report(r) => Ok(Some(r["violations"].as_array().map(|a| a.iter().map(Violation::from_json).collect()).unwrap_or_default())),
        Outcome::Died { .. } => Ok(None),
        Outcome::Harness(m) => Err(m),
    }
}

fn write_replay(args: &Args, v: &Violation) -> String {
    write_replay_mode(args, v, "single")
}

fn write_replay_mode(args: &Args, v: &Violation, mode: &str) -> String {
    let dir = format!("{VERIF_DIR}/replays/{}", args.id);
    let _ = std::fs::create_dir_all(&dir);
    let h = crate::ctx::fnv_str(&format!("{}|{}|{}|{}", v.key(), v.space, v.case, args.tier.name()));
    let path = format!("{dir}/{:016x}.json", h);
    let body = json!({
        "property": args.id, "tier": args.tier.name(), "seed": args.seed as i64,
        "space": v.space, "space_ordinal": v.space_ordinal, "case": v.case,
        "replay_mode": mode, "worker": v.worker, "nworkers": v.nworkers,
        "site": v.site, "signature": v.signature, "occurrences": v.count, "detail": v.detail,
        "how_to_replay": format!("./check {} --replay {}", args.id, path),
    });
    let _ = std::fs::write(&path, serde_json::to_string_pretty(&body).unwrap());
    path
}

pub fn supervise(args: &Args) -> i32 {
    let t0 = Instant::now();
    let meta = meta::find(&args.id).unwrap();
    let known = match load_known() {
        Ok(k) => k,
        Err(e) => {
            eprintln!("machinery: {e}");
            return 2;
        }
    };
    let dir = scratch_dir();
    let n = args.workers;
    let mut runs = vec![];
    for w in 0..n {
        match spawn_worker(args, &dir, w, n, None, "w") {
            Ok(r) => runs.push(r),
            Err(e) => {
                eprintln!("machinery: cannot spawn worker: {e}");
                let _ = std::fs::remove_dir_all(&dir);
                return 2;
            }
        }
    }
    // workers stop taking cases at the budget; allow generous slack for the case in flight (on an overloaded host a
    // case that takes 20 s alone was seen to take more than a minute; a worker killed here ends the run as a machinery
    // failure or, if it reproduces, as a hang)
    let deadline = Instant::now() + args.budget + Duration::from_secs(if args.tier.thorough() { 600 } else { 240 });
    let mut merged = Merged::default();
    let mut died: Vec<(u64, Option<u64>, String)> = vec![];
    let mut harness_err: Vec<String> = vec![];
    for wr in runs {
        let idx = wr.idx;
        match wait_worker(wr, deadline) {
            Outcome::Report(r) => merge(&mut merged, &r),
            Outcome::Died { crumb, stderr } => died.push((idx, crumb, stderr)),
            Outcome::Harness(m) => harness_err.push(m),
        }
    }
    if !harness_err.is_empty() {
        for m in harness_err {
            eprintln!("machinery: {m}");
        }
        let _ = std::fs::remove_dir_all(&dir);
        return 2;
    }
    let mut machinery_fail = false;
    // A worker that died: re-run the case named by its breadcrumb twice in isolation.
    for (w, crumb, stderr) in &died {
        match crumb {
            Some(c) if *c != u64::MAX => {
                let (ord, case) = (c >> 40, c & ((1u64 << 40) - 1));
                let a = rerun_case(args, &dir, ord, case, "d1_");
                let b = rerun_case(args, &dir, ord, case, "d2_");
                match (a, b) {
                    (Ok(None), Ok(None)) => {
                        let space = merged.spaces.get(ord as usize).and_then(|s| s["name"].as_str()).unwrap_or("?").to_string();
                        let v = Violation {
                            worker: *w,
                            nworkers: n,
                            space,
                            space_ordinal: ord,
                            case,
                            site: "process".into(),
                            signature: "subject code aborted or did not return (stack overflow, abort, hang)".into(),
                            detail: json!({"stderr": stderr}),
                            count: 1,
                        };
                        merged.violations.insert(v.key(), v);
                        merged.notes.insert(format!("worker {w} died at space {ord} case {case}; reproduced twice in isolation; its remaining share of the space was not explored"));
                        if let Some(s) = merged.spaces.get_mut(ord as usize) {
                            s["capped"] = json!(true);
                        }
                    }
                    (Err(m), _) | (_, Err(m)) => {
                        eprintln!("machinery: {m}");
                        machinery_fail = true;
                    }
                    _ => {
                        eprintln!("machinery: worker {w} died ({stderr}) but case {ord}:{case} does not reproduce in isolation");
                        machinery_fail = true;
                    }
                }
            }
            _ => {
                eprintln!("machinery: worker {w} died outside any case: {stderr}");
                machinery_fail = true;
            }
        }
    }
    if machinery_fail {
        let _ = std::fs::remove_dir_all(&dir);
        return 2;
    }
    if merged.notes.iter().any(|n| n.starts_with("ENUMERATION-MISMATCH")) {
        eprintln!("machinery: workers disagree on the enumeration (nondeterministic harness)");
        let _ = std::fs::remove_dir_all(&dir);
        return 2;
    }

    // Classify violations; confirm each new one by two isolated re-executions.
    let mut known_lines: Vec<String> = vec![];
    let mut new_violations: Vec<Violation> = vec![];
    for v in merged.violations.values() {
        if let Some(k) = is_known(&known, &args.id, v) {
            known_lines.push(format!("KNOWN-FINDING: property={} {} [{}] ({} occurrence(s) in this run; {})", args.id, k.site, k.signature, v.count, k.description));
        } else {
            new_violations.push(v.clone());
        }
    }
    let mut confirmed: Vec<(Violation, String)> = vec![];
    // Re-execution is done for the earliest (smallest) cases first and for at most MAX_CONFIRM distinct
    // signatures; one defect usually shows under many signatures (one per construction path and accessor) and
    // every one of them would otherwise cost two to four fresh processes.
    const MAX_CONFIRM: usize = 4;
    new_violations.sort_by_key(|v| (v.site == "process", v.space_ordinal, v.case));
    let skipped: Vec<Violation> = if new_violations.len() > MAX_CONFIRM { new_violations.split_off(MAX_CONFIRM) } else { vec![] };
    for v in &new_violations {
        if v.site == "process" {
            confirmed.push((v.clone(), write_replay(args, v)));
            continue;
        }
        // Isolated re-execution in fresh processes. Same (site, signature) twice = confirmed. The library hashes
        // with per-process random keys; if the case violates the property again but with another signature (or only
        // in some runs), it is confirmed as intermittent after two of up to four re-executions show a violation.
        let mut ok = 0;
        let mut any = 0;
        for round in 0..4 {
            if round >= 2 && (ok >= 2 || any == 0) {
                break;
            }
            match rerun_case(args, &dir, v.space_ordinal, v.case, &format!("c{round}_")) {
                Ok(Some(vs)) => {
                    if vs.iter().any(|x| x.key() == v.key()) {
                        ok += 1;
                    }
                    if !vs.is_empty() {
                        any += 1;
                    }
                }
                Ok(None) => {
                    any += 1; // died: the case does not complete
                }
                Err(m) => {
                    eprintln!("machinery: {m}");
                    let _ = std::fs::remove_dir_all(&dir);
                    return 2;
                }
            }
        }
        if ok >= 2 {
            confirmed.push((v.clone(), write_replay(args, v)));
        } else if any >= 2 {
            let mut hv = v.clone();
            hv.signature = format!("{} [intermittent: the same case violates the property in repeated fresh runs, but not always with this signature - the outcome depends on hash iteration order inside the library]", v.signature);
            let path = write_replay(args, &hv);
            confirmed.push((hv, path));
        } else {
            // Not reproducible in isolation: does it reproduce when the same process first executes the cases it
            // executed before (same shard, same order)? Then the subject keeps state between calls.
            let mut okp = 0;
            for round in 0..2 {
                match rerun_prefix(args, &dir, v.worker, v.nworkers, v.space_ordinal, v.case, &format!("p{round}_")) {
                    Ok(Some(vs)) => {
                        if vs.iter().any(|x| x.key() == v.key()) {
                            okp += 1;
                        }
                    }
                    Ok(None) => {}
                    Err(m) => {
                        eprintln!("machinery: {m}");
                        let _ = std::fs::remove_dir_all(&dir);
                        return 2;
                    }
                }
            }
            if okp == 2 {
                let mut hv = v.clone();
                hv.signature = format!("{} [history-dependent: only after the earlier cases of the same process - the library keeps state between calls]", v.signature);
                let path = write_replay_mode(args, &hv, "prefix");
                confirmed.push((hv, path));
            } else {
                eprintln!("machinery: violation {} at {}:{} did not reproduce in isolated re-execution ({}/2) nor after replaying the worker's earlier cases ({}/2): nondeterministic replay", v.key(), v.space, v.case, ok, okp);
                let _ = std::fs::remove_dir_all(&dir);
                return 2;
            }
        }
    }
    let _ = std::fs::remove_dir_all(&dir);

    // Evidence
    let sum = |k: &str| -> u64 { merged.spaces.iter().map(|s| s[k].as_u64().unwrap_or(0)).sum() };
    let capped: Vec<String> = merged.spaces.iter().filter(|s| s["capped"].as_bool().unwrap_or(false)).map(|s| s["name"].as_str().unwrap_or("").to_string()).collect();
    let exhaustive = capped.is_empty();
    let mut samples: Vec<Value> = vec![];
    let mut seen_space: BTreeMap<String, usize> = BTreeMap::new();
    for s in &merged.samples {
        let sp = s["space"].as_str().unwrap_or("").to_string();
        let c = seen_space.entry(sp).or_insert(0);
        if *c < 1 && samples.len() < 12 {
            samples.push(s.clone());
            *c += 1;
        }
    }
    if samples.is_empty() {
        samples = merged.samples.iter().take(3).cloned().collect();
    }
    let wall = t0.elapsed().as_secs_f64();
    let evidence = json!({
        "property_id": args.id,
        "tier": args.tier.name(),
        "seed": args.seed as i64,
        "level": meta.level,
        "coverage": {
            "evaluations": sum("executions"),
            "distinct_nontrivial": sum("nontrivial"),
            "rule": merged.rule,
            "samples": samples,
            "states": sum("states"),
            "transitions": sum("transitions"),
            "traces_validated_against_impl": sum("validated"),
            "cases": sum("cases"),
            "cases_executed": sum("executed"),
            "distinct_outcomes": merged.outcomes.len(),
            "exhaustive": exhaustive,
            "capped_or_partial_spaces": capped,
            "spaces": merged.spaces,
            "counters": merged.extra,
            "notes": merged.notes.iter().collect::<Vec<_>>(),
            "workers": n,
            "known_findings_hit": known_lines.len(),
        },
        "assumptions": merged.assumptions,
        "wall_s": wall,
        "violations": confirmed.len(),
    });
    let evdir = format!("{VERIF_DIR}/evidence");
    let _ = std::fs::create_dir_all(&evdir);
    let evpath = format!("{evdir}/{}.json", args.id);
    if let Err(e) = std::fs::write(&evpath, serde_json::to_string_pretty(&evidence).unwrap() + "\n") {
        eprintln!("machinery: cannot write evidence: {e}");
        return 2;
    }
    if args.tier.thorough() {
        // keep the last thorough run next to the per-run file (which a later quick run overwrites)
        let tdir = format!("{evdir}/thorough");
        let _ = std::fs::create_dir_all(&tdir);
        let _ = std::fs::write(format!("{tdir}/{}.json", args.id), serde_json::to_string_pretty(&evidence).unwrap() + "\n");
    }
    // (when every worker died in the subject code and the death reproduces in isolation there are no executions
    // to count, but there is a confirmed violation to report)
    if confirmed.is_empty() && (sum("executions") == 0 || sum("states") == 0) {
        eprintln!("machinery: vacuous run (no executions)");
        return 2;
    }
    println!(
        "{} tier={} cases={} executed={} executions={} states={} transitions={} validated={} nontrivial={} distinct_outcomes={} exhaustive={} wall={:.1}s",
        args.id,
        args.tier.name(),
        sum("cases"),
        sum("executed"),
        sum("executions"),
        sum("states"),
        sum("transitions"),
        sum("validated"),
        sum("nontrivial"),
        merged.outcomes.len(),
        exhaustive,
        wall
    );
    if !capped.is_empty() {
        println!("NOTE: not exhaustive in this run (wall budget reached or deliberately partial): {}", capped.join(", "));
    }
    for l in &known_lines {
        println!("{l}");
    }
    // what was tolerated without a verdict (inputs the property leaves open): visible on stdout, not only in the
    // evidence file - a run in which an open input starts to be refused must not look like the run before
    {
        let tolerated: Vec<String> = merged.extra.iter().filter(|(k, v)| **v > 0 && (k.starts_with("refused") || k.starts_with("skipped:") || k.starts_with("no verdict"))).map(|(k, v)| format!("{k} = {v}")).collect();
        if !tolerated.is_empty() {
            println!("NOTE: tolerated without a verdict (unspecified inputs): {}", tolerated.join("; "));
        }
    }
    if confirmed.is_empty() {
        println!("OK property={} held on everything explored", args.id);
        0
    } else {
        for (v, path) in &confirmed {
            println!("VIOLATION property={} replay={}", args.id, path);
            println!("  site={} signature={} occurrences={} first_case={}:{}", v.site, v.signature, v.count, v.space, v.case);
        }
        if !skipped.is_empty() {
            println!("  ... and {} further signature(s) of violations in this run that were not individually re-executed:", skipped.len());
            for v in skipped.iter().take(12) {
                println!("      site={} signature={} occurrences={} first_case={}:{}", v.site, v.signature, v.count, v.space, v.case);
            }
        }
        1
    }
}

pub fn replay(args: &Args, path: &str) -> i32 {
    let s = match std::fs::read_to_string(path) {
        Ok(s) => s,
        Err(e) => {
            eprintln!("machinery: cannot read {path}: {e}");
            return 2;
        }
    };
    let v: Value = match serde_json::from_str(&s) {
        Ok(v) => v,
        Err(e) => {
            eprintln!("machinery: {path}: {e}");
            return 2;
        }
    };
    let tier = match v["tier"].as_str() {
        Some("thorough") => crate::ctx::Tier::Thorough,
        _ => crate::ctx::Tier::Quick,
    };
    let a = Args {
        id: args.id.clone(),
        tier,
        replay: None,
        worker: None,
        only: None,
        until: None,
        seed: v["seed"].as_i64().unwrap_or(0) as u64,
        budget: args.budget,
        workers: 1,
    };
    let (ord, case) = (v["space_ordinal"].as_u64().unwrap_or(0), v["case"].as_u64().unwrap_or(0));
    let dir = scratch_dir();
    let r = if v["replay_mode"].as_str() == Some("prefix") {
        rerun_prefix(&a, &dir, v["worker"].as_u64().unwrap_or(0), v["nworkers"].as_u64().unwrap_or(1), ord, case, "r_")
    } else {
        // an intermittent violation (hash-order dependent) may need several fresh runs to show again
        let mut last = rerun_case(&a, &dir, ord, case, "r_");
        for round in 0..3 {
            match &last {
                Ok(Some(vs)) if vs.is_empty() => last = rerun_case(&a, &dir, ord, case, &format!("r{round}_")),
                _ => break,
            }
        }
        last
    };
    let _ = std::fs::remove_dir_all(&dir);
    let known = load_known().unwrap_or_default();
    match r {
        Ok(Some(vs)) => {
            let mut bad = false;
            for x in &vs {
                if is_known(&known, &a.id, x).is_some() {
                    println!("KNOWN-FINDING: property={} {} [{}]", a.id, x.site, x.signature);
                    continue;
                }
                bad = true;
                println!("VIOLATION property={} replay={}", a.id, path);
                println!("  site={} signature={}", x.site, x.signature);
                println!("  detail={}", serde_json::to_string(&x.detail).unwrap_or_default());
            }
            if bad {
                1
            } else {
                println!("replay: case {}:{} shows no violation", v["space"].as_str().unwrap_or("?"), case);
                0
            }
        }
        Ok(None) => {
            println!("VIOLATION property={} replay={}", a.id, path);
            println!("  subject code aborted or did not return");
            1
        }
        Err(m) => {
            eprintln!("machinery: {m}");
            2
        }
    }
}
